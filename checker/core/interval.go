package core

import (
	"fmt"
	"go/ast"
	"go/token"
	"go/types"
	"sort"
	"strings"
)

// E9: finite-domain abstract interpretation of byte classifiers over unions of closed
// integer intervals. Nothing is executed: conditions are turned into sets by set algebra.

type Iv struct{ Lo, Hi int64 }

// IvSet is a sorted list of disjoint, non-adjacent closed intervals.
type IvSet []Iv

func NewIvSet(ivs ...Iv) IvSet {
	var s IvSet
	for _, iv := range ivs {
		if iv.Lo <= iv.Hi {
			s = append(s, iv)
		}
	}
	return s.norm()
}

func (s IvSet) norm() IvSet {
	if len(s) == 0 {
		return nil
	}
	c := append(IvSet{}, s...)
	sort.Slice(c, func(i, j int) bool { return c[i].Lo < c[j].Lo })
	out := IvSet{c[0]}
	for _, iv := range c[1:] {
		last := &out[len(out)-1]
		if iv.Lo <= last.Hi+1 {
			if iv.Hi > last.Hi {
				last.Hi = iv.Hi
			}
		} else {
			out = append(out, iv)
		}
	}
	return out
}

func (s IvSet) Union(t IvSet) IvSet { return append(append(IvSet{}, s...), t...).norm() }

func (s IvSet) Intersect(t IvSet) IvSet {
	var out IvSet
	for _, a := range s {
		for _, b := range t {
			lo, hi := max64(a.Lo, b.Lo), min64(a.Hi, b.Hi)
			if lo <= hi {
				out = append(out, Iv{lo, hi})
			}
		}
	}
	return out.norm()
}

const ivInf = int64(1) << 40

func (s IvSet) Minus(t IvSet) IvSet {
	// complement of t within (-inf, inf), then intersect
	var comp IvSet
	prev := -ivInf
	for _, b := range t.norm() {
		if b.Lo > prev {
			comp = append(comp, Iv{prev, b.Lo - 1})
		}
		prev = b.Hi + 1
	}
	comp = append(comp, Iv{prev, ivInf})
	return s.Intersect(comp)
}

func (s IvSet) Shift(d int64) IvSet {
	var out IvSet
	for _, a := range s {
		out = append(out, Iv{a.Lo + d, a.Hi + d})
	}
	return out
}

func (s IvSet) Empty() bool { return len(s) == 0 }

func (s IvSet) Equal(t IvSet) bool {
	a, b := s.norm(), t.norm()
	if len(a) != len(b) {
		return false
	}
	for i := range a {
		if a[i] != b[i] {
			return false
		}
	}
	return true
}

func (s IvSet) Contains(v int64) bool {
	for _, a := range s {
		if a.Lo <= v && v <= a.Hi {
			return true
		}
	}
	return false
}

func (s IvSet) Count() int64 {
	var n int64
	for _, a := range s {
		n += a.Hi - a.Lo + 1
	}
	return n
}

func (s IvSet) String() string {
	if len(s) == 0 {
		return "{}"
	}
	var parts []string
	for _, a := range s {
		if a.Lo == a.Hi {
			parts = append(parts, fmt.Sprintf("0x%02x", a.Lo))
		} else {
			parts = append(parts, fmt.Sprintf("0x%02x-0x%02x", a.Lo, a.Hi))
		}
	}
	return "{" + strings.Join(parts, ",") + "}"
}

func max64(a, b int64) int64 {
	if a > b {
		return a
	}
	return b
}

func min64(a, b int64) int64 {
	if a < b {
		return a
	}
	return b
}

// cmpSet: the set of x with `x op c`.
func cmpSet(op token.Token, c int64) (IvSet, bool) {
	switch op {
	case token.EQL:
		return IvSet{{c, c}}, true
	case token.NEQ:
		return IvSet{{-ivInf, c - 1}, {c + 1, ivInf}}, true
	case token.LSS:
		return IvSet{{-ivInf, c - 1}}, true
	case token.LEQ:
		return IvSet{{-ivInf, c}}, true
	case token.GTR:
		return IvSet{{c + 1, ivInf}}, true
	case token.GEQ:
		return IvSet{{c, ivInf}}, true
	}
	return nil, false
}

func flipOp(op token.Token) token.Token {
	switch op {
	case token.LSS:
		return token.GTR
	case token.LEQ:
		return token.GEQ
	case token.GTR:
		return token.LSS
	case token.GEQ:
		return token.LEQ
	}
	return op
}

// AbsEnv is the environment of the classifier interpreter.
type AbsEnv struct {
	Info *types.Info
	// IsVar reports whether expression e denotes the abstract variable of the given
	// kind: "byte" (the classified byte/rune) or "len" (the length of the string).
	IsVar func(e ast.Expr) string
	// Consts are concrete values of other identifiers (the part kind, local ints).
	Consts map[types.Object]int64
	// Pos is "first" or "rest" for `i == 0` tests; PosVar the loop index object.
	Pos    string
	PosVar types.Object
	// Funcs resolves boolean helper classifiers by callee object.
	Funcs func(o types.Object) *Func
	depth int
}

// condVal is the result of evaluating a condition: either a concrete truth value, or a
// set of values of one abstract variable for which it is true.
type condVal struct {
	Known bool // concrete
	Val   bool
	Var   string // "byte" or "len" when not Known
	Set   IvSet
}

func full() IvSet { return IvSet{{-ivInf, ivInf}} }

// EvalCond evaluates a boolean expression abstractly. ok=false: outside the fragment.
func (env *AbsEnv) EvalCond(e ast.Expr) (condVal, bool) {
	e = ast.Unparen(e)
	switch x := e.(type) {
	case *ast.UnaryExpr:
		if x.Op == token.NOT {
			v, ok := env.EvalCond(x.X)
			if !ok {
				return v, false
			}
			if v.Known {
				v.Val = !v.Val
				return v, true
			}
			v.Set = full().Minus(v.Set)
			return v, true
		}
	case *ast.BinaryExpr:
		switch x.Op {
		case token.LAND, token.LOR:
			a, ok1 := env.EvalCond(x.X)
			b, ok2 := env.EvalCond(x.Y)
			if !ok1 || !ok2 {
				return condVal{}, false
			}
			and := x.Op == token.LAND
			switch {
			case a.Known && b.Known:
				if and {
					return condVal{Known: true, Val: a.Val && b.Val}, true
				}
				return condVal{Known: true, Val: a.Val || b.Val}, true
			case a.Known:
				a, b = b, a
				fallthrough
			case b.Known:
				if and {
					if !b.Val {
						return condVal{Known: true, Val: false}, true
					}
					return a, true
				}
				if b.Val {
					return condVal{Known: true, Val: true}, true
				}
				return a, true
			default:
				if a.Var != b.Var {
					return condVal{}, false // relational: outside the fragment
				}
				if and {
					return condVal{Var: a.Var, Set: a.Set.Intersect(b.Set)}, true
				}
				return condVal{Var: a.Var, Set: a.Set.Union(b.Set)}, true
			}
		case token.EQL, token.NEQ, token.LSS, token.LEQ, token.GTR, token.GEQ:
			// <var> / c  op  k   (non-negative domain: the caller intersects with its domain)
			if q, ok := ast.Unparen(x.X).(*ast.BinaryExpr); ok && q.Op == token.QUO {
				if v := env.IsVar(q.X); v != "" {
					c, okC := ConstInt(env.Info, q.Y)
					k, okK := ConstInt(env.Info, x.Y)
					if okC && okK && c > 0 && k >= 0 {
						eq := IvSet{{k * c, k*c + c - 1}}
						var s IvSet
						switch x.Op {
						case token.EQL:
							s = eq
						case token.NEQ:
							s = IvSet{{0, ivInf}}.Minus(eq)
						case token.LSS:
							s = NewIvSet(Iv{0, k*c - 1})
						case token.LEQ:
							s = IvSet{{0, k*c + c - 1}}
						case token.GTR:
							s = IvSet{{k*c + c, ivInf}}
						case token.GEQ:
							s = IvSet{{k * c, ivInf}}
						}
						return condVal{Var: v, Set: s}, true
					}
				}
			}
			// the classified string compared with "": a statement about its length
			if x.Op == token.EQL || x.Op == token.NEQ {
				for _, pr := range [][2]ast.Expr{{x.X, x.Y}, {x.Y, x.X}} {
					if env.IsVar(pr[0]) == "str" {
						if sv, isS := ConstString(env.Info, pr[1]); isS && sv == "" {
							set := IvSet{{0, 0}}
							if x.Op == token.NEQ {
								set = IvSet{{1, ivInf}}
							}
							return condVal{Var: "len", Set: set}, true
						}
					}
				}
			}
			lv, lIsVar, lc, lIsC := env.operand(x.X)
			rv, rIsVar, rc, rIsC := env.operand(x.Y)
			switch {
			case lIsVar && rIsC:
				s, ok := cmpSet(x.Op, rc)
				return condVal{Var: lv, Set: s}, ok
			case rIsVar && lIsC:
				s, ok := cmpSet(flipOp(x.Op), lc)
				return condVal{Var: rv, Set: s}, ok
			case lIsC && rIsC:
				s, ok := cmpSet(x.Op, rc)
				return condVal{Known: true, Val: s.Contains(lc)}, ok
			}
			return condVal{}, false
		}
	case *ast.CallExpr:
		// boolean helper classifier applied to the byte variable
		if env.Funcs == nil || len(x.Args) != 1 || env.IsVar(x.Args[0]) != "byte" || env.depth > 3 {
			return condVal{}, false
		}
		o := Callee(env.Info, x)
		f := env.Funcs(o)
		if f == nil {
			return condVal{}, false
		}
		rs := SoleReturn(f.Info(), f.Body)
		if rs == nil || len(rs.Results) != 1 {
			return condVal{}, false
		}
		var param types.Object
		for _, fl := range f.Type.Params.List {
			for _, n := range fl.Names {
				param = f.Info().Defs[n]
			}
		}
		sub := &AbsEnv{Info: f.Info(), Consts: map[types.Object]int64{}, Funcs: env.Funcs, depth: env.depth + 1,
			IsVar: func(e ast.Expr) string {
				if id, ok := ast.Unparen(e).(*ast.Ident); ok && f.Info().Uses[id] == param {
					return "byte"
				}
				return ""
			}}
		return sub.EvalCond(rs.Results[0])
	case *ast.Ident:
		if x.Name == "true" || x.Name == "false" {
			return condVal{Known: true, Val: x.Name == "true"}, true
		}
	}
	return condVal{}, false
}

// operand classifies a comparison operand: abstract variable, or concrete constant.
func (env *AbsEnv) operand(e ast.Expr) (v string, isVar bool, c int64, isConst bool) {
	e = ast.Unparen(e)
	if k := env.IsVar(e); k != "" {
		return k, true, 0, false
	}
	if cv, ok := ConstInt(env.Info, e); ok {
		return "", false, cv, true
	}
	if id, ok := e.(*ast.Ident); ok {
		o := env.Info.Uses[id]
		if cv, ok := env.Consts[o]; ok {
			return "", false, cv, true
		}
		if o != nil && o == env.PosVar {
			// only `i == 0` style tests are meaningful: first ⇒ 0, rest ⇒ "not 0" is
			// represented by the pseudo constant 1 (any positive index)
			if env.Pos == "first" {
				return "", false, 0, true
			}
			return "", false, 1, true
		}
	}
	// conversions int(x) of an operand
	if call, ok := e.(*ast.CallExpr); ok && len(call.Args) == 1 {
		if tv, ok := env.Info.Types[call.Fun]; ok && tv.IsType() {
			return env.operand(call.Args[0])
		}
	}
	// an integer helper applied to concrete arguments: maxLen(kind)
	if call, ok := e.(*ast.CallExpr); ok && env.Funcs != nil && env.depth <= 3 {
		if f := env.Funcs(Callee(env.Info, call)); f != nil {
			var args []int64
			allC := true
			for _, a := range call.Args {
				_, _, ac, aIsC := env.operand(a)
				if !aIsC {
					allC = false
				}
				args = append(args, ac)
			}
			if allC {
				if v, ok := evalIntFunc(f, args, env); ok {
					return "", false, v, true
				}
			}
		}
	}
	return "", false, 0, false
}

// evalIntFunc evaluates `func(p…) int` whose body is a sequence of `if <cond on constants> { return C }`
// (or a tagged switch over a parameter with constant returns) followed by `return D`, for concrete arguments.
func evalIntFunc(f *Func, args []int64, outer *AbsEnv) (int64, bool) {
	info := f.Info()
	env := &AbsEnv{Info: info, Consts: map[types.Object]int64{}, Funcs: outer.Funcs, depth: outer.depth + 1, IsVar: func(ast.Expr) string { return "" }}
	i := 0
	for _, fl := range f.Type.Params.List {
		for _, n := range fl.Names {
			if i < len(args) {
				env.Consts[info.Defs[n]] = args[i]
			}
			i++
		}
	}
	if i != len(args) {
		return 0, false
	}
	var run func(stmts []ast.Stmt) (int64, bool, bool) // value, returned, ok
	run = func(stmts []ast.Stmt) (int64, bool, bool) {
		for _, st := range stmts {
			switch x := st.(type) {
			case *ast.ReturnStmt:
				if len(x.Results) != 1 {
					return 0, false, false
				}
				_, _, c, isC := env.operand(x.Results[0])
				return c, true, isC
			case *ast.IfStmt:
				if x.Init != nil {
					return 0, false, false
				}
				cv, ok := env.EvalCond(x.Cond)
				if !ok || !cv.Known {
					return 0, false, false
				}
				if cv.Val {
					if v, ret, ok := run(x.Body.List); ret || !ok {
						return v, ret, ok
					}
				} else if blk, isB := x.Else.(*ast.BlockStmt); isB {
					if v, ret, ok := run(blk.List); ret || !ok {
						return v, ret, ok
					}
				} else if x.Else != nil {
					return 0, false, false
				}
			case *ast.SwitchStmt:
				if x.Init != nil || x.Tag == nil {
					return 0, false, false
				}
				_, _, tv, tIsC := env.operand(x.Tag)
				if !tIsC {
					return 0, false, false
				}
				var chosen, deflt *ast.CaseClause
				for _, cl := range x.Body.List {
					cc := cl.(*ast.CaseClause)
					if cc.List == nil {
						deflt = cc
					}
					for _, ce := range cc.List {
						_, _, cv, cIsC := env.operand(ce)
						if !cIsC {
							return 0, false, false
						}
						if cv == tv && chosen == nil {
							chosen = cc
						}
					}
				}
				if chosen == nil {
					chosen = deflt
				}
				if chosen != nil {
					if v, ret, ok := run(chosen.Body); ret || !ok {
						return v, ret, ok
					}
				}
			default:
				return 0, false, false
			}
		}
		return 0, false, true
	}
	v, ret, ok := run(f.Body.List)
	return v, ret && ok
}

// ClassResult is the verdict of one classifier run (one kind, one position class).
type ClassResult struct {
	ByteReject IvSet // bytes that make the function return false at this position
	LenReject  IvSet // lengths rejected before the loop
	Undecided  string
}

// absState is one symbolic path.
type absState struct {
	bytes IvSet
	lens  IvSet
}

// RunClassifier interprets `func(kind K, s string) bool` of the shape
//
//	<prefix statements: constant assignments, length tests>
//	for i := range s { <body over s[i]> }
//	return true
//
// for one concrete environment and one position class, returning the rejected sets.
func RunClassifier(f *Func, env *AbsEnv, domain IvSet) ClassResult {
	res := ClassResult{}
	var strParam types.Object
	for _, fl := range f.Type.Params.List {
		for _, n := range fl.Names {
			o := f.Info().Defs[n]
			if b, ok := o.Type().Underlying().(*types.Basic); ok && b.Info()&types.IsString != 0 {
				strParam = o
			}
		}
	}
	if strParam == nil {
		res.Undecided = "no string parameter"
		return res
	}
	info := f.Info()
	byteAlias := map[types.Object]bool{} // locals holding s[i]
	firstByte := false                   // s[0] denotes the byte while a first-position statement outside the loop is evaluated
	env.IsVar = func(e ast.Expr) string {
		e = ast.Unparen(e)
		if id, ok := e.(*ast.Ident); ok {
			if o := info.Uses[id]; o != nil {
				if byteAlias[o] {
					return "byte"
				}
				if o == strParam {
					return "str"
				}
			}
		}
		if ix, ok := e.(*ast.IndexExpr); ok {
			if id, ok := ast.Unparen(ix.X).(*ast.Ident); ok && info.Uses[id] == strParam {
				if iid, ok := ast.Unparen(ix.Index).(*ast.Ident); ok && info.Uses[iid] == env.PosVar && env.PosVar != nil {
					return "byte"
				}
				if v, isC := ConstInt(info, ix.Index); isC && v == 0 && firstByte {
					return "byte"
				}
			}
		}
		if call, ok := e.(*ast.CallExpr); ok && CalleeName(info, call) == "builtin.len" {
			if id, ok := ast.Unparen(call.Args[0]).(*ast.Ident); ok && info.Uses[id] == strParam {
				return "len"
			}
		}
		return ""
	}
	st := absState{bytes: domain, lens: IvSet{{0, ivInf}}}
	var run func(stmts []ast.Stmt, st absState, inLoop bool) (out absState, alive bool)
	reject := func(st absState, inLoop bool) {
		if inLoop {
			res.ByteReject = res.ByteReject.Union(st.bytes)
		} else {
			res.LenReject = res.LenReject.Union(st.lens)
		}
	}
	split := func(st absState, cond ast.Expr) (t, f absState, tAlive, fAlive bool, ok bool) {
		cv, ok := env.EvalCond(cond)
		if !ok {
			return st, st, false, false, false
		}
		if cv.Known {
			return st, st, cv.Val, !cv.Val, true
		}
		t, f = st, st
		if cv.Var == "byte" {
			t.bytes, f.bytes = st.bytes.Intersect(cv.Set), st.bytes.Minus(cv.Set)
			return t, f, !t.bytes.Empty(), !f.bytes.Empty(), true
		}
		t.lens, f.lens = st.lens.Intersect(cv.Set), st.lens.Minus(cv.Set)
		return t, f, !t.lens.Empty(), !f.lens.Empty(), true
	}
	merge := func(a absState, aAlive bool, b absState, bAlive bool) (absState, bool) {
		switch {
		case aAlive && bAlive:
			return absState{a.bytes.Union(b.bytes), a.lens.Union(b.lens)}, true
		case aAlive:
			return a, true
		case bAlive:
			return b, true
		}
		return absState{}, false
	}
	run = func(stmts []ast.Stmt, st absState, inLoop bool) (absState, bool) {
		for _, s := range stmts {
			switch x := s.(type) {
			case *ast.ReturnStmt:
				if len(x.Results) == 1 {
					if id, ok := ast.Unparen(x.Results[0]).(*ast.Ident); ok && id.Name == "false" {
						reject(st, inLoop)
						return st, false
					}
					if id, ok := ast.Unparen(x.Results[0]).(*ast.Ident); ok && id.Name == "true" {
						return st, false // accepted: path ends
					}
					// `return <cond>`: reject where cond is false
					if _, f, _, fAlive, ok := split(st, x.Results[0]); ok {
						if fAlive {
							reject(f, inLoop)
						}
						return st, false
					}
				}
				res.Undecided = "unsupported return"
				return st, false
			case *ast.BranchStmt:
				if x.Tok == token.CONTINUE && inLoop {
					return st, false // accepted for this position
				}
				res.Undecided = "unsupported branch"
				return st, false
			case *ast.IfStmt:
				if x.Init != nil {
					res.Undecided = "if with init"
					return st, false
				}
				// a test of s[0] before the loop: `if <cond on s[0]> { return false }` speaks about the
				// first position only
				if !inLoop && mentionsIndex0(info, x.Cond, strParam) {
					if x.Else != nil || len(x.Body.List) != 1 {
						res.Undecided = "unsupported test of s[0]"
						return st, false
					}
					rs, isR := x.Body.List[0].(*ast.ReturnStmt)
					if !isR || len(rs.Results) != 1 || ExprString(rs.Results[0]) != "false" {
						res.Undecided = "unsupported test of s[0]"
						return st, false
					}
					if env.Pos == "first" {
						firstByte = true
						t, _, tA, _, ok := split(absState{bytes: domain, lens: st.lens}, x.Cond)
						firstByte = false
						if !ok {
							res.Undecided = "condition outside the fragment: " + ExprString(x.Cond)
							return st, false
						}
						if tA {
							res.ByteReject = res.ByteReject.Union(t.bytes)
						}
					}
					continue
				}
				t, f, tA, fA, ok := split(st, x.Cond)
				if !ok {
					res.Undecided = "condition outside the fragment: " + ExprString(x.Cond)
					return st, false
				}
				var tOut, fOut absState
				tOutA, fOutA := false, fA
				fOut = f
				if tA {
					tOut, tOutA = run(x.Body.List, t, inLoop)
				}
				if fA && x.Else != nil {
					switch e := x.Else.(type) {
					case *ast.BlockStmt:
						fOut, fOutA = run(e.List, f, inLoop)
					case *ast.IfStmt:
						fOut, fOutA = run([]ast.Stmt{e}, f, inLoop)
					}
				}
				var alive bool
				st, alive = merge(tOut, tOutA, fOut, fOutA)
				if !alive {
					return st, false
				}
			case *ast.SwitchStmt:
				if x.Init != nil {
					res.Undecided = "switch with init"
					return st, false
				}
				rest := st
				restAlive := true
				var outs []absState
				var deflt *ast.CaseClause
				for _, cl := range x.Body.List {
					cc := cl.(*ast.CaseClause)
					if cc.List == nil {
						deflt = cc
						continue
					}
					// the clause's guard as a condition
					var cond ast.Expr
					for _, ce := range cc.List {
						var c ast.Expr = ce
						if x.Tag != nil {
							c = &ast.BinaryExpr{X: x.Tag, Op: token.EQL, Y: ce}
						}
						if cond == nil {
							cond = c
						} else {
							cond = &ast.BinaryExpr{X: cond, Op: token.LOR, Y: c}
						}
					}
					if !restAlive {
						continue
					}
					t, f, tA, fA, ok := split(rest, cond)
					if !ok {
						res.Undecided = "switch case outside the fragment"
						return st, false
					}
					if tA {
						for _, bs := range cc.Body {
							if br, ok := bs.(*ast.BranchStmt); ok && br.Tok == token.FALLTHROUGH {
								res.Undecided = "fallthrough"
								return st, false
							}
						}
						if o, alive := run(cc.Body, t, inLoop); alive {
							outs = append(outs, o)
						}
					}
					rest, restAlive = f, fA
				}
				if restAlive {
					if deflt != nil {
						if o, alive := run(deflt.Body, rest, inLoop); alive {
							outs = append(outs, o)
						}
					} else {
						outs = append(outs, rest)
					}
				}
				if len(outs) == 0 {
					return st, false
				}
				st = outs[0]
				for _, o := range outs[1:] {
					st, _ = merge(st, true, o, true)
				}
			case *ast.AssignStmt:
				// constant assignment to a local: maxlen := 80 / maxlen = 350
				if Inert(info, x) {
					continue
				}
				if len(x.Lhs) == 1 && len(x.Rhs) == 1 {
					if id, ok := x.Lhs[0].(*ast.Ident); ok {
						o := info.Defs[id]
						if o == nil {
							o = info.Uses[id]
						}
						// c := s[i]
						if inLoop && o != nil && x.Tok == token.DEFINE && env.IsVar(x.Rhs[0]) == "byte" {
							byteAlias[o] = true
							continue
						}
						if v, isC := ConstInt(info, x.Rhs[0]); isC && o != nil {
							env.Consts[o] = v
							continue
						}
					}
				}
				res.Undecided = "unsupported assignment"
				return st, false
			case *ast.ForStmt:
				// for i := C; i < len(s); i++ with C = 0 (every position) or 1 (every position but the first)
				start, iv, okF := int64(-1), types.Object(nil), false
				if as, isA := x.Init.(*ast.AssignStmt); isA && as.Tok == token.DEFINE && len(as.Lhs) == 1 && len(as.Rhs) == 1 && !inLoop {
					if id, isId := as.Lhs[0].(*ast.Ident); isId {
						if v, isC := ConstInt(info, as.Rhs[0]); isC && (v == 0 || v == 1) {
							start, iv = v, info.Defs[id]
						}
					}
				}
				if iv != nil {
					if be, isB := ast.Unparen(x.Cond).(*ast.BinaryExpr); isB && be.Op == token.LSS {
						if id, isId := ast.Unparen(be.X).(*ast.Ident); isId && info.Uses[id] == iv && env.IsVar(be.Y) == "len" {
							if inc, isI := x.Post.(*ast.IncDecStmt); isI && inc.Tok == token.INC {
								if id2, isId2 := ast.Unparen(inc.X).(*ast.Ident); isId2 && info.Uses[id2] == iv {
									okF = true
								}
							}
						}
					}
				}
				if !okF {
					res.Undecided = "unsupported loop"
					return st, false
				}
				if start == 0 || env.Pos != "first" {
					env.PosVar = iv
					run(x.Body.List, absState{bytes: domain, lens: st.lens}, true)
					env.PosVar = nil
				}
			case *ast.RangeStmt:
				id, ok := x.Key.(*ast.Ident)
				sid, ok2 := ast.Unparen(x.X).(*ast.Ident)
				if !ok || !ok2 || info.Uses[sid] != strParam || x.Value != nil || inLoop {
					res.Undecided = "unsupported loop"
					return st, false
				}
				env.PosVar = info.Defs[id]
				run(x.Body.List, absState{bytes: domain, lens: st.lens}, true)
				env.PosVar = nil
			default:
				res.Undecided = fmt.Sprintf("unsupported statement %T", s)
				return st, false
			}
			if res.Undecided != "" {
				return st, false
			}
		}
		return st, true
	}
	run(f.Body.List, st, false)
	return res
}

// Piece is one piece of a piecewise map extracted from a tagless switch over one
// integer variable: on Dom the variable becomes x+Add (Const=false), the constant Add
// (Const=true), or the element is skipped.
type Piece struct {
	Dom   IvSet
	Add   int64
	Const bool
	Skip  bool
}

// PiecewiseFromSwitch extracts the map a `switch { case <cond on v>: v = v ± c | v = c | continue }`
// applies to variable v over the given domain (first match wins; unmatched = identity).
func PiecewiseFromSwitch(info *types.Info, sw *ast.SwitchStmt, v types.Object, domain IvSet) ([]Piece, string) {
	if sw.Tag != nil || sw.Init != nil {
		return nil, "not a tagless switch"
	}
	env := &AbsEnv{Info: info, Consts: map[types.Object]int64{}, IsVar: func(e ast.Expr) string {
		if id, ok := ast.Unparen(e).(*ast.Ident); ok && info.Uses[id] == v {
			return "byte"
		}
		return ""
	}}
	rest := domain
	var out []Piece
	stripConv := func(e ast.Expr) ast.Expr {
		e = ast.Unparen(e)
		if call, ok := e.(*ast.CallExpr); ok && len(call.Args) == 1 && info.Types[call.Fun].IsType() {
			return ast.Unparen(call.Args[0])
		}
		return e
	}
	// value: e as a function of v: constant, v, v ± c
	value := func(p *Piece, e ast.Expr) string {
		rhs := stripConv(e)
		if cv, isC := ConstInt(info, rhs); isC {
			p.Const, p.Add = true, cv
			return ""
		}
		if id, isID := rhs.(*ast.Ident); isID && info.Uses[id] == v {
			return ""
		}
		if be, isB := rhs.(*ast.BinaryExpr); isB && (be.Op == token.ADD || be.Op == token.SUB) {
			xid, okx := ast.Unparen(be.X).(*ast.Ident)
			cv, isC := ConstInt(info, be.Y)
			if okx && info.Uses[xid] == v && isC {
				if be.Op == token.SUB {
					cv = -cv
				}
				p.Add = cv
				return ""
			}
			// c + v
			yid, oky := ast.Unparen(be.Y).(*ast.Ident)
			cx, isCx := ConstInt(info, be.X)
			if oky && info.Uses[yid] == v && isCx && be.Op == token.ADD {
				p.Add = cx
				return ""
			}
		}
		return "non-affine value " + ExprString(e)
	}
	apply := func(cc *ast.CaseClause, dom IvSet) string {
		p := Piece{Dom: dom}
		switch len(cc.Body) {
		case 0:
			// identity
		case 1:
			switch b := cc.Body[0].(type) {
			case *ast.BranchStmt:
				if b.Tok != token.CONTINUE {
					return "unsupported branch in case"
				}
				p.Skip = true
			case *ast.ReturnStmt:
				// the switch is the body of a helper: `return value` or `return value, ok`
				switch len(b.Results) {
				case 1:
					if why := value(&p, b.Results[0]); why != "" {
						return why
					}
				case 2:
					okc, isB := ast.Unparen(b.Results[1]).(*ast.Ident)
					if !isB || (okc.Name != "true" && okc.Name != "false") {
						return "second result is not a boolean constant"
					}
					if okc.Name == "false" {
						p.Skip = true
					} else if why := value(&p, b.Results[0]); why != "" {
						return why
					}
				default:
					return "unsupported return in case"
				}
			case *ast.AssignStmt:
				id, ok := b.Lhs[0].(*ast.Ident)
				if !ok || info.Uses[id] != v || len(b.Rhs) != 1 {
					return "assignment to another variable"
				}
				rhs := ast.Unparen(b.Rhs[0])
				if b.Tok == token.ASSIGN {
					if why := value(&p, rhs); why != "" {
						return why
					}
				} else if cv, isC := ConstInt(info, rhs); isC && (b.Tok == token.ADD_ASSIGN || b.Tok == token.SUB_ASSIGN) {
					if b.Tok == token.SUB_ASSIGN {
						cv = -cv
					}
					p.Add = cv
				} else {
					return "non-affine assignment"
				}
			default:
				return "unsupported statement in case"
			}
		default:
			return "multi-statement case"
		}
		if !dom.Empty() {
			out = append(out, p)
		}
		return ""
	}
	var deflt *ast.CaseClause
	for _, cl := range sw.Body.List {
		cc := cl.(*ast.CaseClause)
		if cc.List == nil {
			deflt = cc
			continue
		}
		set := IvSet{}
		for _, ce := range cc.List {
			cv, ok := env.EvalCond(ce)
			if !ok || cv.Known || cv.Var != "byte" {
				return nil, "case outside the fragment: " + ExprString(ce)
			}
			set = set.Union(cv.Set)
		}
		dom := rest.Intersect(set)
		rest = rest.Minus(set)
		if why := apply(cc, dom); why != "" {
			return nil, why
		}
	}
	if deflt != nil {
		if why := apply(deflt, rest); why != "" {
			return nil, why
		}
	} else if !rest.Empty() {
		out = append(out, Piece{Dom: rest})
	}
	return out, ""
}

// Image of a piece.
func (p Piece) Image() IvSet {
	switch {
	case p.Skip:
		return nil
	case p.Const:
		return IvSet{{p.Add, p.Add}}
	}
	return p.Dom.Shift(p.Add)
}

// CondSet evaluates cond for the single abstract variable "byte" over the given domain and
// returns the subset of the domain on which it is true.
func (env *AbsEnv) CondSet(e ast.Expr, domain IvSet) (IvSet, bool) {
	v, ok := env.EvalCond(e)
	if !ok {
		return nil, false
	}
	if v.Known {
		if v.Val {
			return domain, true
		}
		return nil, true
	}
	return v.Set.Intersect(domain), true
}


// mentionsIndex0: does e contain s[0] for the given string parameter?
func mentionsIndex0(info *types.Info, e ast.Expr, strParam types.Object) bool {
	found := false
	ast.Inspect(e, func(n ast.Node) bool {
		if ix, ok := n.(*ast.IndexExpr); ok {
			if id, isId := ast.Unparen(ix.X).(*ast.Ident); isId && info.Uses[id] == strParam {
				if v, isC := ConstInt(info, ix.Index); isC && v == 0 {
					found = true
				}
			}
		}
		return !found
	})
	return found
}

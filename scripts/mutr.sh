#!/bin/bash
# usage: scripts/mutr.sh <file> <old> <new> <Cxx>...  -- replace first occurrence of <old> by <new> in scratch copy, check it compiles, run checks
set -u
F="$1"; OLD="$2"; NEW="$3"; shift 3
S=${MUTDIR:-/tmp/mutrepo}
mkdir -p $S; rsync -a --delete --exclude .git /repo/ $S/
python3 - "$S/$F" "$OLD" "$NEW" <<'PY' || exit 3
import sys
p,old,new=sys.argv[1:4]
s=open(p).read()
if old not in s: print("OLD NOT FOUND"); sys.exit(1)
open(p,'w').write(s.replace(old,new,1))
PY
( cd $S && export GOFLAGS=-mod=mod GOPROXY=off && go build ./$(dirname $F)/ ) || { echo "DOES NOT COMPILE"; exit 4; }
O=${VERIF_OUT:-/tmp/mutverif}; mkdir -p $O; cp /verif/known_findings.json /verif/properties.jsonl $O/
for id in "$@"; do
  VERIF_REPO=$S VERIF_DIR=$O /verif/bin/verif-check $id 2>&1 | grep -v "^VIOLATION\|^KNOWN" | head -${MUTLINES:-8}
done

#!/usr/bin/env python3
"""usage: finish_seed.py <seed-id> <caught_by> <rule_history> [note]
Builds seeded/<id>/meta.json from the adversary's agent_meta.json and confirm.txt."""
import json, sys, os, re
sid, caught, hist = sys.argv[1:4]
note = sys.argv[4] if len(sys.argv) > 4 else None
d = f'/verif/seeded/{sid}'
am = json.load(open(f'{d}/agent_meta.json'))
conf = [l.strip() for l in open(f'{d}/confirm.txt') if re.match(r'^(CLEAN|BUILD|PATCHED|EXISTING|PATCH):', l)]
meta = {
 "property": am.get("property", sid.split('-')[0]),
 "title": am.get("title"),
 "breaks": am.get("breaks"),
 "needs_to_manifest": am.get("needs_to_manifest"),
 "site": am.get("site"),
 "demo_cmd": am.get("demo_cmd"),
 "round": 2,
 "author": "independent sub-agent given only the property text, the list of round-1 sites to avoid and a scratch worktree of /repo",
 "confirmed_by_me": {
  "what_i_ran": "scripts/import_seed.sh + scripts/confirm_seed.sh (patch refreshed against /repo HEAD; scratch git worktree outside /repo and /verif: demo on clean tree, patch applied + go build ./..., demo on patched tree, existing tests of the touched packages with the patch and without the demo file)",
  "result": conf,
 },
 "caught_by": caught,
 "rule_history": hist,
}
if note: meta["note"] = note
json.dump(meta, open(f'{d}/meta.json', 'w'), indent=1, ensure_ascii=False)
os.remove(f'{d}/agent_meta.json')
print(sid, conf)

#!/bin/bash
# usage: benign_sweep.sh Cxx [transform...]   -- applies each behaviour-preserving transform to each anchor file of the
# property (one file at a time) in a scratch copy and reports checks that raise an alarm (false alarms by construction)
set -u
ID=$1; shift
TRS="${*:-pre preret swap invert incdec cmpnorm rename elseret andsplit retvar}"
S=${BENIGN_DIR:-/tmp/benignrepo}; O=$S-verif
mkdir -p $O; cp /verif/known_findings.json /verif/properties.jsonl $O/
export GOFLAGS=-mod=mod GOPROXY=off; unset GOWORK
FILES=$(jq -r "select(.id==\"$ID\") | .anchors.files[]" /verif/properties.jsonl)
for f in $FILES; do
  [ -f /repo/$f ] || continue
  case $f in *_test.go) continue;; *.go) ;; *) continue;; esac
  for t in $TRS; do
    rsync -a --delete --exclude .git /repo/ $S/
    out=$(/verif/bin/benign $S $f $t 2>&1); rc=$?
    [ $rc = 3 ] && continue
    [ $rc != 0 ] && { echo "TOOLFAIL $ID $f $t: $out"; continue; }
    if ! ( cd $S && go build ./$(dirname $f)/ ) >/tmp/benign-build.log 2>&1; then echo "NOCOMPILE $ID $f $t: $(head -2 /tmp/benign-build.log | tr '\n' ' ')"; continue; fi
    r=$(VERIF_REPO=$S VERIF_DIR=$O /verif/bin/verif-check $ID 2>&1 | grep -v "^VIOLATION\|^KNOWN")
    if ! echo "$r" | head -1 | grep -q " 0 violated, 0 undecided"; then echo "ALARM $ID $f $t ($out)"; echo "$r" | sed -n 2,6p | cut -c1-260; fi
  done
done
echo "swept $ID"

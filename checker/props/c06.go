package props

import (
	"os"
	"go/ast"
	"go/token"
	"go/types"
	"sort"

	"verifcheck/core"
)

func init() {
	register(&Prop{ID: "C06", Pkgs: []string{"kvcache"}, Run: runC06})
}

func runC06(c *Ctx) {
	info := c.P.Pkgs["kvcache"].TypesInfo
	fCells := c.P.LookupField("kvcache", "Causal", "cells")
	fRanges := c.P.LookupField("kvcache", "Causal", "cellRanges")
	fSeqs := c.P.LookupField("kvcache", "cacheCell", "sequences")
	fPos := c.P.LookupField("kvcache", "cacheCell", "pos")
	fCurLoc := c.P.LookupField("kvcache", "Causal", "curLoc")
	if fCells == nil || fRanges == nil || fSeqs == nil || fPos == nil || fCurLoc == nil {
		c.Undecided("C06-R1", "anchor:Causal fields", "-", "anchor lost: Causal.{cells,cellRanges,curLoc}, cacheCell.{sequences,pos}")
		return
	}

	// ------------------------------------------------------------------ R1
	c.Rule("C06-R1", "full ⇒ error, never overwrite: in Causal.StartForward every store into c.cells is behind the nil edge of the error of the last findStartLoc (including the retry after defrag), at an index derived from c.curLoc set by that call; window eviction precedes the first search; defrag runs only on the ErrKvCacheFull edge and is followed by a second search; findStartLoc returns a location only on the true edge of count >= curBatchSize where count counts consecutive cells with no sequences and is reset on an occupied cell")
	if f := c.Fn("C06-R1", "kvcache", "Causal.StartForward"); f != nil {
		g := c.G(f)
		finds := g.FindCalls("kvcache.Causal.findStartLoc")
		c.Expect("C06-R1", "findStartLoc calls in StartForward", len(finds), 2)
		var errObj types.Object
		for _, fd := range finds {
			if o := core.ResultVar(info, fd.Top, fd.Node.(*ast.CallExpr), 1); o != nil {
				errObj = o
			}
			// result 0 goes to c.curLoc
			as, ok := fd.Top.(*ast.AssignStmt)
			c.Check("C06-R1", f.Key()+" findStartLoc result stored in curLoc", c.Pos(fd.Node), ok && core.FieldVar(info, as.Lhs[0]) == fCurLoc, "the placement must use the location the search returned")
		}
		stores := g.Find(func(n ast.Node) bool {
			a, ok := n.(*ast.AssignStmt)
			if !ok {
				return false
			}
			for _, l := range a.Lhs {
				if ix, isIx := ast.Unparen(l).(*ast.IndexExpr); isIx && core.FieldVar(info, ix.X) == fCells {
					return true
				}
			}
			return false
		})
		c.Expect("C06-R1", "stores into cells in StartForward", len(stores), 1)
		for _, st := range stores {
			okErr := false
			if errObj != nil {
				if isNil, known := g.ObjNilFact(st.Loc, errObj); known && isNil {
					okErr = true
				}
			}
			// every findStartLoc dominates... the last one must precede the nil test: no findStartLoc between the test and the store
			okLast := true
			for _, fd := range finds {
				if g.Reaches(st.Loc, fd.Loc) && false {
					okLast = false
				}
			}
			for _, a := range g.Atoms2(st.Loc) {
				if x, _, isNil := core.IsNilCheck(info, a.Expr); isNil {
					if id, ok := ast.Unparen(x).(*ast.Ident); ok && info.Uses[id] == errObj {
						for _, fd := range finds {
							if !g.Dominates(fd.Loc, g.CondLoc(a.Blk)) && g.Reaches(g.CondLoc(a.Blk), fd.Loc) {
								okLast = false // a search after the test
							}
						}
					}
				}
			}
			a := st.Node.(*ast.AssignStmt)
			ix := ast.Unparen(a.Lhs[0]).(*ast.IndexExpr)
			okIdx := false
			for _, x := range expand(g, ix.Index, 2) { // through a local (`loc := c.curLoc + i`)
				if core.UsesField(info, x, fCurLoc) {
					okIdx = true
				}
			}
			c.Check("C06-R1", f.Key()+" store:cells only after a successful search, at curLoc+i", c.Pos(a), okErr && okLast && okIdx, "a cell may be written only on the nil edge of the (last) findStartLoc error, at an index derived from c.curLoc")
		}
		sw := g.FindCalls("kvcache.Causal.updateSlidingWindow")
		df := g.FindCalls("kvcache.Causal.defrag")
		okOrder := len(sw) == 1 && len(finds) == 2 && g.Dominates(sw[0].Loc, finds[0].Loc)
		c.Check("C06-R1", f.Key()+" window eviction precedes placement", c.Pos(f.Decl), okOrder, "updateSlidingWindow must run before the first findStartLoc")
		for _, d := range df {
			onFull := false
			for _, a := range g.AtomsAt(d.Loc) {
				if call, ok := ast.Unparen(a.Expr).(*ast.CallExpr); ok && a.Val && core.CalleeName(info, call) == "errors.Is" && core.ExprString(call.Args[1]) == "ErrKvCacheFull" {
					onFull = true
				}
			}
			retry := len(finds) == 2 && g.Dominates(d.Loc, finds[1].Loc) && d.Loc != finds[1].Loc
			c.Check("C06-R1", f.Key()+" defrag only when full, then search again", c.Pos(d.Node), onFull && retry, "defrag must be on the ErrKvCacheFull edge and followed by a second findStartLoc")
		}
	}
	if f := c.Fn("C06-R1", "kvcache", "Causal.findStartLoc"); f != nil {
		g := c.G(f)
		n := 0
		for _, ex := range g.Returns() {
			if g.ReturnKind(ex) != core.RetSuccess {
				continue
			}
			n++
			okCount, okEmpty := false, false
			var countObj types.Object
			for _, a := range g.AtomsAt(ex.Loc) {
				be, ok := ast.Unparen(a.Expr).(*ast.BinaryExpr)
				if !ok || !a.Val {
					continue
				}
				if x, _, op, ok := core.Orient(be, func(e ast.Expr) bool { return selName(e) != "curBatchSize" }); ok && op == token.GEQ && selName(be.X)+selName(be.Y) == "curBatchSize" {
					if id, isID := ast.Unparen(x).(*ast.Ident); isID {
						countObj = info.Uses[id]
						okCount = true
					}
				}
				if be.Op == token.EQL {
					if lenOfField(info, be.X) == fSeqs {
						if v, isC := core.ConstInt(info, be.Y); isC && v == 0 {
							okEmpty = true
						}
					}
				}
			}
			// count++ only on the empty edge, reset on the occupied edge
			okInc, okReset := false, false
			if countObj != nil {
				for _, as := range g.AssignsTo(countObj) {
					empty := 0
					for _, a := range g.AtomsAt(as.Loc) {
						if be, ok := ast.Unparen(a.Expr).(*ast.BinaryExpr); ok && be.Op == token.EQL {
							if lenOfField(info, be.X) == fSeqs {
								if a.Val {
									empty = 1
								} else {
									empty = -1
								}
							}
						}
					}
					switch x := as.Node.(type) {
					case *ast.IncDecStmt:
						if x.Tok == token.INC && empty == 1 {
							okInc = true
						} else {
							okInc = false
						}
					case *ast.AssignStmt:
						if v, isC := core.ConstInt(info, x.Rhs[0]); isC && v == 0 && empty == -1 {
							okReset = true
						}
					}
				}
			}
			formA := okCount && okEmpty && okInc && okReset
			// second accepted form: no counter; start is moved past every occupied cell and the location is
			// returned on an empty cell i with i-start+1 >= curBatchSize, i visiting the cells upwards by one
			formB := false
			if !formA {
				formB = findStartLocRunForm(c, f, g, ex, fSeqs)
			}
			c.Check("C06-R1", f.Key()+" returns a block of curBatchSize consecutive empty cells", c.Pos(ex.Return), formA || formB, "the location may be returned only when count >= curBatchSize, count being incremented on empty cells and reset to 0 on an occupied one (or, without a counter, when i-start+1 >= curBatchSize on an empty cell i, start being moved to i+1 on every occupied cell)")
		}
		c.Expect("C06-R1", "success returns of findStartLoc", n, 1)
		// failure wraps ErrKvCacheFull
		okFull := false
		ast.Inspect(f.Body, func(n ast.Node) bool {
			if call, ok := n.(*ast.CallExpr); ok && core.CalleeName(info, call) == "fmt.Errorf" {
				for _, a := range call.Args {
					if core.ExprString(a) == "ErrKvCacheFull" {
						okFull = true
					}
				}
			}
			return true
		})
		c.Check("C06-R1", f.Key()+" reports ErrKvCacheFull", c.Pos(f.Decl), okFull, "an exhausted search must return an error wrapping ErrKvCacheFull")
	}

	// ------------------------------------------------------------------ R2 / R3
	c.Rule("C06-R2", "who may write cache metadata: stores to cells, cell.sequences, cell.pos and cellRanges occur only in Init, StartForward, updateSlidingWindow, defrag, CopyPrefix and Remove")
	c.Rule("C06-R3", "range bookkeeping pairs with membership writes: every function that adds or removes a sequence's membership stores (or deletes) cellRanges for that sequence before returning normally; a loop that removes a sequence from cells iterates over all cells or over that same sequence's recorded range (a narrower range leaves stale membership behind)")
	allowed := map[string]bool{"Causal.Init": true, "Causal.StartForward": true, "Causal.updateSlidingWindow": true, "Causal.defrag": true, "Causal.CopyPrefix": true, "Causal.Remove": true}
	nW := 0
	for _, fn := range c.P.FuncsOf("kvcache") {
		writes := map[string]string{}
		ast.Inspect(fn.Body, func(n ast.Node) bool {
			var lhs []ast.Expr
			switch x := n.(type) {
			case *ast.AssignStmt:
				lhs = x.Lhs
			case *ast.IncDecStmt:
				lhs = []ast.Expr{x.X}
			case *ast.CallExpr:
				if core.CalleeName(info, x) == "builtin.delete" && core.FieldVar(info, x.Args[0]) == fRanges {
					writes["cellRanges"] = c.Pos(x)
				}
			}
			for _, l := range lhs {
				e := ast.Unparen(l)
				if core.FieldVar(info, e) == fSeqs {
					writes["sequences"] = c.Pos(n)
				}
				if core.FieldVar(info, e) == fPos {
					writes["pos"] = c.Pos(n)
				}
				if core.FieldVar(info, e) == fCells {
					writes["cells"] = c.Pos(n)
				}
				if ix, ok := e.(*ast.IndexExpr); ok {
					if core.FieldVar(info, ix.X) == fCells {
						writes["cells[i]"] = c.Pos(n)
					}
					if core.FieldVar(info, ix.X) == fRanges {
						writes["cellRanges"] = c.Pos(n)
					}
				}
				if core.FieldVar(info, e) == fRanges {
					writes["cellRanges"] = c.Pos(n)
				}
			}
			return true
		})
		var ks []string
		for k := range writes {
			ks = append(ks, k)
		}
		sort.Strings(ks)
		for _, k := range ks {
			nW++
			c.Check("C06-R2", fn.Key()+" write:"+k, writes[k], allowed[fn.Name], "cache metadata written outside the audited functions")
		}
		// R3 pairing
		if _, mem := writes["sequences"]; mem || writes["cells[i]"] != "" {
			if fn.Name == "Causal.Init" {
				continue
			}
			_, rng := writes["cellRanges"]
			c.Check("C06-R3", fn.Key()+" membership change updates cellRanges", c.Pos(fn.Decl), rng, "a function that changes which sequences a cell belongs to must also store the affected sequence's range")
		}
	}
	c.Expect("C06-R2", "metadata write kinds per function", nW, 12)
	// the cellRanges store is reached before every normal return (for the functions with a single trailing store)
	for _, name := range []string{"Causal.CopyPrefix", "Causal.Remove"} {
		f := c.Fn("C06-R3", "kvcache", name)
		if f == nil {
			continue
		}
		g := c.G(f)
		isRangeStore := func(n ast.Node, l core.Loc) bool {
			ok := false
			core.InspectShallow(n, func(x ast.Node) bool {
				switch y := x.(type) {
				case *ast.AssignStmt:
					for _, lh := range y.Lhs {
						if ix, isIx := ast.Unparen(lh).(*ast.IndexExpr); isIx && core.FieldVar(info, ix.X) == fRanges {
							ok = true
						}
					}
				case *ast.CallExpr:
					if core.CalleeName(info, y) == "builtin.delete" && core.FieldVar(info, y.Args[0]) == fRanges {
						ok = true
					}
				}
				return true
			})
			return ok
		}
		bad := g.MustPass(g.Entry(), isRangeStore, func(ex core.Exit) bool {
			// error returns may leave early (Remove's "shared cells" refusal)
			return ex.Return == nil || len(ex.Return.Results) == 0 || g.ReturnKind(ex) != core.RetError
		})
		c.Check("C06-R3", f.Key()+" every normal return passes the range store", c.Pos(f.Decl), len(bad) == 0, exitList(c, bad, "normal return without storing the sequence's range"))
	}
	nLoops := ruleRemovalDomain(c, "C06-R3", allowed)
	c.Expect("C06-R3", "membership-removal loops", nLoops, 3)

	// ------------------------------------------------------------------ R4
	c.Rule("C06-R4", "the mask predicate consults all three facts: in buildMask the store of -Inf for (batch token i, cell j) is controlled by membership of curSequences[i] in cells[j].sequences, by cells[j].pos against curPositions[i], and by the sliding window (windowSize)")
	if f := c.Fn("C06-R4", "kvcache", "Causal.buildMask"); f != nil {
		g := c.G(f)
		n := 0
		mem, causal, window := false, false, false
		var lastStore ast.Node
		for _, st := range g.Find(func(n ast.Node) bool {
			a, ok := n.(*ast.AssignStmt)
			if !ok || len(a.Lhs) != 1 {
				return false
			}
			_, isIx := ast.Unparen(a.Lhs[0]).(*ast.IndexExpr)
			return isIx && len(core.CallsTo(info, a.Rhs[0], false, "math.Inf")) == 1
		}) {
			// the per-cell store: its index mentions a variable that also indexes c.cells in a
			// condition controlling it (not the padding fill)
			a := st.Node.(*ast.AssignStmt)
			ix := ast.Unparen(a.Lhs[0]).(*ast.IndexExpr)
			cellVars := map[types.Object]bool{}
			for _, fct := range g.Facts(st.Loc) {
				for _, x := range expand(g, fct.Expr, 2) {
					ast.Inspect(x, func(m ast.Node) bool {
						if cx, ok := m.(*ast.IndexExpr); ok && core.FieldVar(info, cx.X) == fCells {
							for _, id := range identsOf(cx.Index) {
								if o := info.Uses[id]; o != nil {
									cellVars[o] = true
								}
							}
						}
						return true
					})
				}
			}
			perCell := false
			for _, id := range identsOf(ix.Index) {
				if cellVars[info.Uses[id]] {
					perCell = true
				}
			}
			if !perCell {
				continue
			}
			n++
			lastStore = a
			mentionsField := func(e ast.Node, name string) bool {
				found := false
				ast.Inspect(e, func(m ast.Node) bool {
					if se, ok := m.(*ast.SelectorExpr); ok && se.Sel.Name == name {
						if v, isV := info.Uses[se.Sel].(*types.Var); isV && v.IsField() {
							found = true
						}
					}
					return !found
				})
				return found
			}
			for _, fct := range g.Facts(st.Loc) {
				// terms that make the store execute: ||-terms of a condition that holds, or the
				// negations of &&-terms of a condition that does not
				type term struct {
					e   ast.Expr
					pos bool
				}
				var terms []term
				var split func(e ast.Expr, pos bool)
				split = func(e ast.Expr, pos bool) {
					e = ast.Unparen(e)
					if u, ok := e.(*ast.UnaryExpr); ok && u.Op == token.NOT {
						split(u.X, !pos)
						return
					}
					if be, ok := e.(*ast.BinaryExpr); ok && ((be.Op == token.LOR && pos) || (be.Op == token.LAND && !pos)) {
						split(be.X, pos)
						split(be.Y, pos)
						return
					}
					if be, ok := e.(*ast.BinaryExpr); ok && ((be.Op == token.LAND && pos) || (be.Op == token.LOR && !pos)) {
						// (enabled && pos > cur): both conjuncts are needed; look at each
						split(be.X, pos)
						split(be.Y, pos)
						return
					}
					if id, ok := e.(*ast.Ident); ok {
						// a local boolean: follow its definition
						if v, isV := info.Uses[id].(*types.Var); isV && !v.IsField() {
							if as := g.AssignsTo(v); len(as) == 1 {
								if d, isAs := as[0].Node.(*ast.AssignStmt); isAs && len(d.Rhs) == 1 {
									if _, isB := ast.Unparen(d.Rhs[0]).(*ast.BinaryExpr); isB {
										split(d.Rhs[0], pos)
										return
									}
									if _, isU := ast.Unparen(d.Rhs[0]).(*ast.UnaryExpr); isU {
										split(d.Rhs[0], pos)
										return
									}
									if _, isC := ast.Unparen(d.Rhs[0]).(*ast.CallExpr); isC {
										split(d.Rhs[0], pos)
										return
									}
								}
							}
						}
					}
					terms = append(terms, term{e, pos})
				}
				split(fct.Expr, fct.Val)
				for _, t := range terms {
					if call, isC := t.e.(*ast.CallExpr); isC && !t.pos && core.CalleeName(info, call) == "slices.Contains" && len(call.Args) == 2 &&
						core.FieldVar(info, call.Args[0]) == fSeqs && mentionsField(call.Args[1], "curSequences") {
						mem = true
					}
					be, isB := t.e.(*ast.BinaryExpr)
					if !isB {
						continue
					}
					op := be.Op
					x, y := be.X, be.Y
					if !core.UsesField(info, x, fPos) && core.UsesField(info, y, fPos) {
						x, y = y, x
						switch op {
						case token.LSS:
							op = token.GTR
						case token.GTR:
							op = token.LSS
						case token.LEQ:
							op = token.GEQ
						case token.GEQ:
							op = token.LEQ
						}
					}
					if !t.pos {
						switch op {
						case token.LSS:
							op = token.GEQ
						case token.GTR:
							op = token.LEQ
						case token.LEQ:
							op = token.GTR
						case token.GEQ:
							op = token.LSS
						}
					}
					if !core.UsesField(info, x, fPos) || !mentionsField(y, "curPositions") {
						continue
					}
					if mentionsField(y, "windowSize") {
						if op == token.LSS {
							window = true
						}
					} else if op == token.GTR {
						causal = true
					}
				}
			}
		}
		if n > 0 {
			c.Check("C06-R4", f.Key()+" -Inf controlled by sequence, causality and window", c.Pos(lastStore), mem && causal && window, "the mask condition must be: not the same sequence ∨ later position ∨ before the window")
		}
		c.Expect("C06-R4", "per-cell mask stores", n, 1)
		// padding rows are masked
		okPad := false
		ast.Inspect(f.Body, func(n ast.Node) bool {
			if fs, ok := n.(*ast.ForStmt); ok && fs.Init != nil && mentionsSel(fs.Init, "curBatchSize") {
				if len(core.CallsTo(info, fs.Body, false, "math.Inf")) == 1 {
					okPad = true
				}
			}
			return true
		})
		c.Check("C06-R4", f.Key()+" padding rows masked", c.Pos(f.Decl), okPad, "rows added by batch padding must be fully masked")
	}

	// ------------------------------------------------------------------ R5
	c.Rule("C06-R5", "the wrapper forwards: for every method of kvcache.Cache, WrapperCache calls the same method on every wrapped cache (management operations, with the same arguments) or on caches[curType] (Get/Put); when a later cache fails StartForward, every earlier cache gets Remove(batch.Sequences[k], batch.Positions[k], MaxInt32) for every token k of the batch")
	iface, _ := c.P.Pkgs["kvcache"].Types.Scope().Lookup("Cache").Type().Underlying().(*types.Interface)
	if iface == nil {
		c.Undecided("C06-R5", "anchor:interface Cache", "-", "anchor lost")
	} else {
		for i := 0; i < iface.NumMethods(); i++ {
			m := iface.Method(i)
			f := c.P.LookupFunc("kvcache", "WrapperCache."+m.Name())
			if f == nil {
				c.Violation("C06-R5", "WrapperCache."+m.Name(), "-", "method of Cache not implemented by the wrapper")
				continue
			}
			callsAll, callsCur := false, false
			sameArgs := true
			// index spellings: `for i := range c.caches { c.caches[i].M(..) }`, `for i := 0; .. i < len(c.caches); i++`
			ast.Inspect(f.Body, func(nd ast.Node) bool {
				var body *ast.BlockStmt
				var idx types.Object
				switch x := nd.(type) {
				case *ast.RangeStmt:
					if selName(x.X) == "caches" && x.Value == nil {
						if kid, isK := x.Key.(*ast.Ident); isK {
							body, idx = x.Body, info.Defs[kid]
						}
					}
				case *ast.ForStmt:
					if x.Cond != nil && mentionsSel(x.Cond, "caches") {
						if as, isAs := x.Init.(*ast.AssignStmt); isAs && len(as.Lhs) == 1 {
							if kid, isK := as.Lhs[0].(*ast.Ident); isK {
								body, idx = x.Body, info.ObjectOf(kid)
							}
						}
					}
				}
				if body == nil || idx == nil {
					return true
				}
				for _, call := range core.Calls(body, false) {
					if core.CalleeName(info, call) != "kvcache.Cache."+m.Name() {
						continue
					}
					se, isSel := ast.Unparen(call.Fun).(*ast.SelectorExpr)
					if !isSel {
						continue
					}
					ix, isIx := ast.Unparen(se.X).(*ast.IndexExpr)
					if !isIx || selName(ix.X) != "caches" || !isIdentOf(info, ix.Index, idx) {
						continue
					}
					callsAll = true
					k := 0
					for _, fl := range f.Type.Params.List {
						for _, nm := range fl.Names {
							if k >= len(call.Args) || core.ExprString(call.Args[k]) != nm.Name {
								sameArgs = false
							}
							k++
						}
					}
				}
				return true
			})
			for _, rl := range rangeLoops(f) {
				if selName(rl.Stmt.X) != "caches" {
					continue
				}
				for _, call := range core.Calls(rl.Stmt.Body, false) {
					if core.CalleeName(info, call) == "kvcache.Cache."+m.Name() {
						if vid, ok := rl.Stmt.Value.(*ast.Ident); ok && core.UsesObj(info, call.Fun, info.Defs[vid]) && within(rl.Stmt.Body, call) {
							// directly in this loop's body (not nested unwind loops)
							callsAll = true
							// arguments are the wrapper's own parameters in order
							k := 0
							for _, fl := range f.Type.Params.List {
								for _, nm := range fl.Names {
									if k >= len(call.Args) || core.ExprString(call.Args[k]) != nm.Name {
										sameArgs = false
									}
									k++
								}
							}
						}
					}
				}
			}
			for _, call := range core.Calls(f.Body, false) {
				if core.CalleeName(info, call) == "kvcache.Cache."+m.Name() {
					if ix, ok := ast.Unparen(call.Fun.(*ast.SelectorExpr).X).(*ast.IndexExpr); ok && selName(ix.X) == "caches" && selName(ix.Index) == "curType" {
						callsCur = true
					}
				}
			}
			switch m.Name() {
			case "Get", "Put":
				c.Check("C06-R5", f.Key()+" forwards to the current cache", c.Pos(f.Decl), callsCur, "Get/Put must go to caches[curType]")
			default:
				c.Check("C06-R5", f.Key()+" forwards to every wrapped cache with the same arguments", c.Pos(f.Decl), callsAll && sameArgs, "management operations must reach all wrapped caches unchanged")
			}
		}
		c.Expect("C06-R5", "methods of kvcache.Cache", iface.NumMethods(), 9)
		// CanResume is a conjunction; Remove stops at the first error
		ruleWrapperConjunction(c, "C06-R5")
		if f := c.Fn("C06-R5", "kvcache", "WrapperCache.StartForward"); f != nil {
			g := c.G(f)
			sf := g.FindCalls("kvcache.Cache.StartForward")
			rm := g.FindCalls("kvcache.Cache.Remove")
			c.Expect("C06-R5", "unwind Remove calls in WrapperCache.StartForward", len(rm), 1)
			for _, r := range rm {
				call := r.Node.(*ast.CallExpr)
				// on the failure edge of StartForward
				onFail := false
				for _, s := range sf {
					if reach, checked := g.FailureReaches(s, r.Loc); checked && reach {
						if ok, _ := g.OnSuccessOf(s, r.Loc); !ok {
							onFail = true
						}
					}
				}
				// inside a loop over earlier caches (j from i-1 down) and a loop over batch.Positions with k indexing both slices
				var kObj types.Object
				perToken := false
				for _, rl := range rangeLoops(f) {
					if within(rl.Stmt, call) && selName(rl.Stmt.X) == "Positions" {
						if kid, ok := rl.Stmt.Key.(*ast.Ident); ok {
							kObj = info.Defs[kid]
						}
					}
				}
				if kObj != nil && len(call.Args) == 3 {
					a0, ok0 := ast.Unparen(call.Args[0]).(*ast.IndexExpr)
					a1, ok1 := ast.Unparen(call.Args[1]).(*ast.IndexExpr)
					if ok0 && ok1 && selName(a0.X) == "Sequences" && selName(a1.X) == "Positions" && core.UsesObj(info, a0.Index, kObj) && core.UsesObj(info, a1.Index, kObj) {
						if v, isC := core.ConstInt(info, call.Args[2]); isC && v == 1<<31-1 {
							perToken = true
						}
					}
				}
				earlier := false
				ast.Inspect(f.Body, func(n ast.Node) bool {
					if fs, ok := n.(*ast.ForStmt); ok && within(fs, call) && fs.Init != nil && fs.Cond != nil {
						// for j := i - 1; j >= 0; j--  (all caches before the failing one, in any spelling)
						init, isAs := fs.Init.(*ast.AssignStmt)
						if !isAs || len(init.Lhs) != 1 || len(init.Rhs) != 1 {
							return true
						}
						jv := info.ObjectOf(init.Lhs[0].(*ast.Ident))
						sub, isSub := ast.Unparen(init.Rhs[0]).(*ast.BinaryExpr)
						cmp, isCmp := ast.Unparen(fs.Cond).(*ast.BinaryExpr)
						if isSub && isCmp && sub.Op == token.SUB {
							if one, isC := core.ConstInt(info, sub.Y); isC && one == 1 {
								if _, y, op, okO := core.Orient(cmp, func(e ast.Expr) bool { return isIdentOf(info, e, jv) }); okO && op == token.GEQ {
									if z, isZ := core.ConstInt(info, y); isZ && z == 0 {
										earlier = true
									}
								}
							}
						}
					}
					return true
				})
				c.Check("C06-R5", f.Key()+" unwind removes every batch token from every earlier cache", c.Pos(call), onFail && perToken && earlier,
					"on a later cache's failure each earlier cache must get Remove(batch.Sequences[k], batch.Positions[k], MaxInt32) for every k (a mixed batch registers several sequences)")
			}
		}
	}
}

// lenOfField: e is len(<expr ending in field f>) → f.
// findStartLocRunForm: the counter-free spelling of findStartLoc (see C06-R1).
func findStartLocRunForm(c *Ctx, f *core.Func, g *core.Graph, ex core.Exit, fSeqs *types.Var) bool {
	info := f.Info()
	if ex.Return == nil || len(ex.Return.Results) < 1 {
		return false
	}
	sid, ok := ast.Unparen(ex.Return.Results[0]).(*ast.Ident)
	if !ok {
		return false
	}
	start, _ := info.ObjectOf(sid).(*types.Var)
	if start == nil {
		return false
	}
	// the loop index: an upward unit-step loop that contains the return
	var idx types.Object
	var loopBody ast.Node
	ast.Inspect(f.Body, func(n ast.Node) bool {
		switch x := n.(type) {
		case *ast.RangeStmt:
			if within(x.Body, ex.Return) && x.Key != nil {
				if id, isID := x.Key.(*ast.Ident); isID && id.Name != "_" {
					idx, loopBody = info.ObjectOf(id), x.Body
				}
			}
		case *ast.ForStmt:
			if !within(x.Body, ex.Return) || x.Init == nil || x.Post == nil {
				return true
			}
			init, isAs := x.Init.(*ast.AssignStmt)
			post, isInc := x.Post.(*ast.IncDecStmt)
			if !isAs || !isInc || post.Tok != token.INC || len(init.Lhs) != 1 || len(init.Rhs) != 1 {
				return true
			}
			if v, isC := core.ConstInt(info, init.Rhs[0]); !isC || v != 0 {
				return true
			}
			lid, isL := init.Lhs[0].(*ast.Ident)
			pid, isP := ast.Unparen(post.X).(*ast.Ident)
			if isL && isP && info.ObjectOf(lid) == info.ObjectOf(pid) {
				idx, loopBody = info.ObjectOf(lid), x.Body
			}
		}
		return true
	})
	if idx == nil {
		return false
	}
	// the index must not be written in the body
	for _, as := range g.AssignsTo(idx) {
		if a, isAs := as.Node.(*ast.AssignStmt); isAs && a.Tok != token.DEFINE {
			return false
		}
	}
	okLen, okEmpty := false, false
	for _, a := range g.AtomsAt(ex.Loc) {
		if lenZeroOfField(info, a.Expr, a.Val) == fSeqs {
			okEmpty = true
		}
		be, isB := ast.Unparen(a.Expr).(*ast.BinaryExpr)
		if !isB {
			continue
		}
		op := be.Op
		if !a.Val {
			op = negateCmp(op)
		}
		x, y := be.X, be.Y
		if selName(x) == "curBatchSize" {
			x, y = y, x
			switch op {
			case token.LEQ:
				op = token.GEQ
			case token.LSS:
				op = token.GTR
			case token.GEQ:
				op = token.LEQ
			case token.GTR:
				op = token.LSS
			}
		}
		if selName(y) != "curBatchSize" {
			continue
		}
		terms, k, lin := linearForm(info, x)
		if !lin || len(terms) != 2 || terms[idx] != 1 || terms[start] != -1 {
			continue
		}
		// i - start + 1 >= n, i - start >= n - 1 is not spelled; i - start + 1 == n reaches the same cell first
		if (op == token.GEQ || op == token.EQL) && k == 1 {
			okLen = true
		}
		if op == token.GTR && k == 0 {
			okLen = false // i - start > n needs one cell too many: not the same block, leave to the counter form
		}
	}
	// start: zero to begin with, i+1 on an occupied cell, nothing else
	okMoves, moved := true, false
	for _, as := range g.AssignsTo(start) {
		a, isAs := as.Node.(*ast.AssignStmt)
		if !isAs || len(a.Rhs) != 1 {
			if _, isDecl := as.Node.(*ast.DeclStmt); isDecl {
				continue
			}
			if vs, isVS := as.Node.(*ast.ValueSpec); isVS && len(vs.Values) == 0 {
				continue
			}
			okMoves = false
			continue
		}
		if v, isC := core.ConstInt(info, a.Rhs[0]); isC && v == 0 && !within(loopBody, a) {
			continue // initialisation outside the loop
		}
		terms, k, lin := linearForm(info, a.Rhs[0])
		occupied := false
		for _, at := range g.AtomsAt(as.Loc) {
			if lenNonZeroOfField(info, at.Expr, at.Val) == fSeqs {
				occupied = true
			}
		}
		if lin && len(terms) == 1 && terms[idx] == 1 && k == 1 && occupied {
			moved = true
		} else {
			okMoves = false
		}
	}
	if os.Getenv("VERIF_DEBUG") != "" {
		println("findStartLocRunForm", okLen, okEmpty, okMoves, moved)
	}
	return okLen && okEmpty && okMoves && moved
}

func lenOfField(info *types.Info, e ast.Expr) *types.Var {
	call, ok := ast.Unparen(e).(*ast.CallExpr)
	if !ok || core.CalleeName(info, call) != "builtin.len" || len(call.Args) != 1 {
		return nil
	}
	return core.LastField(info, call.Args[0])
}

// ruleRemovalDomain: every loop that drops a sequence from cells[..].sequences iterates over
// all cells or over that sequence's own recorded range. Returns the number of loops found.
func ruleRemovalDomain(c *Ctx, rule string, only map[string]bool) int {
	info := c.P.Pkgs["kvcache"].TypesInfo
	fCells := c.P.LookupField("kvcache", "Causal", "cells")
	fRanges := c.P.LookupField("kvcache", "Causal", "cellRanges")
	fSeqs := c.P.LookupField("kvcache", "cacheCell", "sequences")
	nLoops := 0
	if fCells == nil || fRanges == nil || fSeqs == nil {
		return 0
	}
	for _, fn := range c.P.FuncsOf("kvcache") {
		if !only[fn.Name] {
			continue
		}
		ast.Inspect(fn.Body, func(n ast.Node) bool {
			var body *ast.BlockStmt
			var domain string // "all" | "range:<seq expr>" | other
			switch x := n.(type) {
			case *ast.RangeStmt:
				body = x.Body
				if core.FieldVar(info, x.X) == fCells {
					domain = "all"
				}
			case *ast.ForStmt:
				body = x.Body
				// for i := R.min; i <= R.max; i++ where R := c.cellRanges[seq]
				if x.Init != nil && x.Cond != nil {
					if as, ok := x.Init.(*ast.AssignStmt); ok && selName(as.Rhs[0]) == "min" {
						if p := core.PathOf(info, as.Rhs[0]); p.Valid() {
							g := c.G(fn)
							for _, ra := range g.AssignsTo(p.Root) {
								ast.Inspect(ra.Node, func(m ast.Node) bool {
									if ix, isIx := m.(*ast.IndexExpr); isIx && core.FieldVar(info, ix.X) == fRanges {
										domain = "range:" + core.ExprString(ix.Index)
									}
									return true
								})
							}
						}
					}
				}
			default:
				return true
			}
			// does the body delete a sequence from cells[..].sequences directly (not in nested loops of its own)?
			var removed []string
			core.InspectShallow(body, func(m ast.Node) bool {
				as, ok := m.(*ast.AssignStmt)
				if !ok || len(as.Lhs) != 1 || core.FieldVar(info, as.Lhs[0]) != fSeqs {
					return true
				}
				for _, call := range core.CallsTo(info, as.Rhs[0], false, "slices.DeleteFunc") {
					if lit, isLit := call.Args[1].(*ast.FuncLit); isLit {
						ast.Inspect(lit.Body, func(z ast.Node) bool {
							if be, isB := z.(*ast.BinaryExpr); isB && be.Op == token.EQL {
								// the operand that is not the predicate's own parameter
								other := be.Y
								if id, isID := ast.Unparen(be.Y).(*ast.Ident); isID && len(lit.Type.Params.List) == 1 && len(lit.Type.Params.List[0].Names) == 1 && info.Uses[id] == info.Defs[lit.Type.Params.List[0].Names[0]] {
									other = be.X
								}
								removed = append(removed, core.ExprString(other))
							}
							return true
						})
					}
				}
				return true
			})
			if len(removed) == 0 {
				return true
			}
			// only the innermost loop containing the delete counts
			inner := false
			ast.Inspect(body, func(m ast.Node) bool {
				switch y := m.(type) {
				case *ast.RangeStmt:
					if len(core.CallsTo(info, y.Body, false, "slices.DeleteFunc")) > 0 && ast.Node(y) != n {
						inner = true
					}
				case *ast.ForStmt:
					if len(core.CallsTo(info, y.Body, false, "slices.DeleteFunc")) > 0 && ast.Node(y) != n {
						inner = true
					}
				}
				return true
			})
			if inner {
				return true
			}
			nLoops++
			for _, seq := range removed {
				ok := domain == "all" || domain == "range:"+seq
				c.Check(rule, fn.Key()+" removal of "+seq+" scans all cells or "+seq+"'s own range", c.Pos(n), ok, "the loop that drops sequence "+seq+" from cells iterates over "+domain+": cells of "+seq+" outside it keep their membership while cellRanges["+seq+"] is reset")
			}
			return true
		})
	}
	return nLoops
}

package props

// Rules written after the tenth round of seeded changes.

import (
	"go/ast"
	"go/token"
	"go/types"
	"strings"

	"verifcheck/core"
)

var (
	_ = token.ADD
	_ = strings.HasPrefix
	_ types.Object
)

func init() {
	wrap := func(id string, extra func(c *Ctx)) {
		prev := registry[id].Run
		registry[id].Run = func(c *Ctx) { prev(c); extra(c) }
	}
	wrap("C18", extra11C18)
}

// ---------------------------------------------------------------------------------- C18

func extra11C18(c *Ctx) {
	rule := "C18-R11"
	c.Rule(rule, "Sample refuses only for the two reasons it has: every return of Sampler.Sample that is not a success return is either on the `len(logits) == 0` edge or hands on the error result of Sampler.sample unchanged — a further refusal computed from the logits (a running total tested for NaN, say, which is NaN for NaN-free logits whose partial sum overflows before an infinity of the other sign) turns an admissible vector into an error")
	f := c.Fn(rule, "sample", "Sampler.Sample")
	if f == nil {
		return
	}
	info := f.Info()
	g := c.G(f)
	logits := paramAt(f, 0)
	n := 0
	for _, ex := range g.Returns() {
		if g.ReturnKind(ex) == core.RetSuccess {
			continue
		}
		n++
		ok := false
		why := "the return is neither behind the empty-logits test nor the hand-on of Sampler.sample's error"
		for _, a := range g.AtomsAt(ex.Loc) {
			be, isB := ast.Unparen(a.Expr).(*ast.BinaryExpr)
			if !isB {
				continue
			}
			x, op, y := be.X, be.Op, be.Y
			if _, isC := core.ConstInt(info, x); isC {
				x, y, op = y, x, flip(op)
			}
			lc, isL := ast.Unparen(x).(*ast.CallExpr)
			v, isC := core.ConstInt(info, y)
			if !isL || !isC || core.CalleeName(info, lc) != "builtin.len" || len(lc.Args) != 1 || !isIdentOf(info, lc.Args[0], logits) {
				continue
			}
			if (op == token.EQL && v == 0 && a.Val) || (op == token.NEQ && v == 0 && !a.Val) || (op == token.LSS && v == 1 && a.Val) || (op == token.GTR && v == 0 && !a.Val) {
				ok = true
			}
		}
		if !ok && len(ex.Return.Results) == 2 {
			if id, isId := ast.Unparen(ex.Return.Results[1]).(*ast.Ident); isId {
				if ev, isV := info.Uses[id].(*types.Var); isV {
					from := 0
					other := 0
					for _, as := range g.AssignsTo(ev) {
						calls := core.CallsTo(info, as.Node, false, "sample.Sampler.sample")
						if len(calls) == 1 && core.ResultVar(info, as.Node, calls[0], 1) == ev {
							from++
						} else {
							other++
						}
					}
					if from > 0 && other == 0 {
						ok = true
					} else {
						why = "the returned error variable is assigned from something other than Sampler.sample"
					}
				}
			}
		}
		c.Check(rule, f.Key()+" refusal has one of the two permitted reasons", c.Pos(ex.Return), ok, why)
	}
	c.Expect(rule, "non-success returns of Sampler.Sample", n, 3)
}

package props

import (
	"go/ast"
	"go/constant"
	"go/token"
	"go/types"
	"regexp/syntax"
	"sort"
	"strings"

	"verifcheck/core"
)

const (
	modelNamePkg = "types/model"
	namesPkg     = "server/internal/internal/names"
)

func init() {
	register(&Prop{ID: "C13", Pkgs: []string{modelNamePkg, namesPkg, "server", blobPkg, regPkg}, Run: runC13})
}

type partClass struct {
	First, Rest, LenReject core.IvSet
	Undecided              string
}

// classifyParts runs the E9 interpreter on isValidPart of package rel for every kind constant.
func classifyParts(c *Ctx, rule, rel string, kinds map[string]int64) map[string]partClass {
	out := map[string]partClass{}
	f := c.Fn(rule, rel, "isValidPart")
	if f == nil {
		return out
	}
	fns := map[types.Object]*core.Func{}
	for _, g := range c.P.FuncsOf(rel) {
		if g.Obj != nil {
			fns[g.Obj] = g
		}
	}
	var kindParam types.Object
	for _, fl := range f.Type.Params.List {
		for _, n := range fl.Names {
			o := f.Info().Defs[n]
			if b, ok := o.Type().Underlying().(*types.Basic); ok && b.Info()&types.IsInteger != 0 {
				kindParam = o
			}
		}
	}
	domain := core.NewIvSet(core.Iv{Lo: 0, Hi: 255})
	for name, kv := range kinds {
		pc := partClass{}
		for _, pos := range []string{"first", "rest"} {
			env := &core.AbsEnv{Info: f.Info(), Consts: map[types.Object]int64{kindParam: kv}, Pos: pos,
				Funcs: func(o types.Object) *core.Func { return fns[o] }}
			// isValidLen(kind, s) as a helper on the length: inline by evaluating its body with the same kind
			res := runClassifierWithLenHelper(c, f, env, domain, fns, kv)
			if res.Undecided != "" {
				pc.Undecided = res.Undecided
			}
			acc := domain.Minus(res.ByteReject)
			if pos == "first" {
				pc.First = acc
			} else {
				pc.Rest = acc
			}
			pc.LenReject = res.LenReject
		}
		out[name] = pc
	}
	return out
}

// runClassifierWithLenHelper handles the `if !isValidLen(kind, s) { return false }` prefix of
// types/model by interpreting isValidLen (a switch on kind returning a length condition)
// as a classifier of its own and adding its rejected lengths.
func runClassifierWithLenHelper(c *Ctx, f *core.Func, env *core.AbsEnv, domain core.IvSet, fns map[types.Object]*core.Func, kv int64) core.ClassResult {
	info := f.Info()
	var body []ast.Stmt
	for _, st := range f.Body.List {
		if len(body) == 0 && core.Inert(info, st) {
			continue // inert statements before the length test
		}
		body = append(body, st)
	}
	var lenRej core.IvSet
	if len(body) > 0 {
		if is, ok := body[0].(*ast.IfStmt); ok && is.Init == nil {
			if u, ok := ast.Unparen(is.Cond).(*ast.UnaryExpr); ok && u.Op == token.NOT {
				if call, ok := ast.Unparen(u.X).(*ast.CallExpr); ok {
					if h := fns[core.Callee(info, call)]; h != nil {
						if rs := core.SoleReturn(info, is.Body); rs != nil && len(rs.Results) == 1 && core.ExprString(rs.Results[0]) == "false" {
							var hk types.Object
							for _, fl := range h.Type.Params.List {
								for _, n := range fl.Names {
									o := h.Info().Defs[n]
									if b, ok := o.Type().Underlying().(*types.Basic); ok && b.Info()&types.IsInteger != 0 {
										hk = o
									}
								}
							}
							henv := &core.AbsEnv{Info: h.Info(), Consts: map[types.Object]int64{hk: kv}, Funcs: env.Funcs}
							hres := core.RunClassifier(h, henv, domain)
							if hres.Undecided != "" {
								return core.ClassResult{Undecided: "isValidLen: " + hres.Undecided}
							}
							lenRej = hres.LenReject
							// run the rest of the function without the prefix
							g := *f
							g.Body = &ast.BlockStmt{List: body[1:]}
							res := core.RunClassifier(&g, env, domain)
							res.LenReject = res.LenReject.Union(lenRej)
							return res
						}
					}
				}
			}
		}
	}
	return core.RunClassifier(f, env, domain)
}

func kindConsts(c *Ctx, rel, prefix string) map[string]int64 {
	out := map[string]int64{}
	sc := c.P.Pkgs[rel].Types.Scope()
	for _, n := range sc.Names() {
		if cst, ok := sc.Lookup(n).(*types.Const); ok && strings.HasPrefix(n, prefix) && len(n) > len(prefix) {
			if v, exact := constant.Int64Val(constant.ToInt(cst.Val())); exact {
				out[strings.ToLower(strings.TrimPrefix(n, prefix))] = v
			}
		}
	}
	return out
}

func runC13(c *Ctx) {
	// ------------------------------------------------------------------ R1
	c.Rule("C13-R1", "exact accepted-byte classes of both isValidPart implementations (finite-domain abstract interpretation over unions of intervals, every byte value, every part kind, first/rest position): no class contains a path separator, NUL or a byte outside [A-Za-z0-9_.:-]; the first byte is alphanumeric or underscore (no leading dot or dash); ':' only for host (and digest); '.' not for namespace; lengths bounded (host ≤ 350, others ≤ 80; types/model also ≥ 1); the two parsers accept the same classes kind by kind")
	mk := kindConsts(c, modelNamePkg, "kind")
	nk := kindConsts(c, namesPkg, "part")
	c.Expect("C13-R1", "part kinds in types/model", len(mk), 5)
	c.Expect("C13-R1", "part kinds in names", len(nk), 4)
	mc := classifyParts(c, "C13-R1", modelNamePkg, mk)
	nc := classifyParts(c, "C13-R1", namesPkg, nk)
	alnum := core.NewIvSet(core.Iv{Lo: '0', Hi: '9'}, core.Iv{Lo: 'A', Hi: 'Z'}, core.Iv{Lo: 'a', Hi: 'z'}, core.Iv{Lo: '_', Hi: '_'})
	safe := alnum.Union(core.NewIvSet(core.Iv{Lo: '-', Hi: '-'}, core.Iv{Lo: '.', Hi: '.'}, core.Iv{Lo: ':', Hi: ':'}))
	points := 0
	check := func(impl string, cls map[string]partClass) {
		var ks []string
		for k := range cls {
			ks = append(ks, k)
		}
		sort.Strings(ks)
		for _, k := range ks {
			pc := cls[k]
			key := impl + ".isValidPart[" + k + "]"
			if pc.Undecided != "" {
				c.Undecided("C13-R1", key, "-", "outside the interpreted fragment: "+pc.Undecided)
				continue
			}
			points += 512
			c.Check("C13-R1", key+" first byte class", "-", pc.First.Equal(alnum), "first-byte class is "+pc.First.String()+", want "+alnum.String())
			wantRest := alnum.Union(core.NewIvSet(core.Iv{Lo: '-', Hi: '-'}))
			if k != "namespace" {
				wantRest = wantRest.Union(core.NewIvSet(core.Iv{Lo: '.', Hi: '.'}))
			}
			if k == "host" || k == "digest" {
				wantRest = wantRest.Union(core.NewIvSet(core.Iv{Lo: ':', Hi: ':'}))
			}
			c.Check("C13-R1", key+" rest byte class", "-", pc.Rest.Equal(wantRest), "rest class is "+pc.Rest.String()+", want "+wantRest.String())
			c.Check("C13-R1", key+" no separator / NUL / unsafe byte", "-", pc.Rest.Minus(safe).Empty() && pc.First.Minus(safe).Empty() && !pc.Rest.Contains('/') && !pc.Rest.Contains('\\') && !pc.Rest.Contains(0),
				"accepts "+pc.Rest.Minus(safe).String())
			maxLen := int64(80)
			if k == "host" {
				maxLen = 350
			}
			okLen := pc.LenReject.Contains(maxLen+1) && !pc.LenReject.Contains(maxLen) && pc.LenReject.Intersect(core.NewIvSet(core.Iv{Lo: 1, Hi: maxLen})).Empty()
			if impl == modelNamePkg {
				okLen = okLen && pc.LenReject.Contains(0)
			}
			c.Check("C13-R1", key+" length bound", "-", okLen, "rejected lengths "+pc.LenReject.String()+", want everything above "+itoa(int(maxLen)))
		}
	}
	check(modelNamePkg, mc)
	check(namesPkg, nc)
	for _, k := range []string{"host", "namespace", "model", "tag"} {
		a, ok1 := mc[k]
		b, ok2 := nc[k]
		c.Check("C13-R1", "parsers agree on kind "+k, "-", ok1 && ok2 && a.First.Equal(b.First) && a.Rest.Equal(b.Rest), "types/model: first "+a.First.String()+" rest "+a.Rest.String()+"; names: first "+b.First.String()+" rest "+b.Rest.String())
	}
	c.Extra["exhaustive_clause"] = "C13-R1: every byte value 0..255 × 2 positions × 9 (implementation, kind) pairs decided by set algebra"
	c.Count("C13-R1 domain points covered", points)

	// validity predicates call the classifier on all four parts
	c.Rule("C13-R1b", "the validity predicates apply isValidPart to every part: types/model IsFullyQualified loops over Host, Namespace, Model, Tag with partKind(i); names.IsValid checks each non-empty part with its own kind and requires a model; names.IsFullyQualified requires IsValid and four non-empty parts")
	if f := c.Fn("C13-R1b", modelNamePkg, "Name.IsFullyQualified"); f != nil {
		info := f.Info()
		ok := false
		for _, rl := range rangeLoops(f) {
			p := core.PathOf(info, rl.Stmt.X)
			if !p.Valid() {
				continue
			}
			var order []string
			for _, as := range c.G(f).AssignsTo(p.Root) {
				ast.Inspect(as.Node, func(n ast.Node) bool {
					if cl, isCl := n.(*ast.CompositeLit); isCl {
						for _, e := range cl.Elts {
							order = append(order, selName(e))
						}
					}
					return true
				})
			}
			calls := core.CallsTo(info, rl.Stmt.Body, false, modelNamePkg+".isValidPart")
			if strings.Join(order, ",") == "Host,Namespace,Model,Tag" && len(calls) == 1 {
				// kind argument is partKind(i) with i the loop key, part the loop value
				kid, _ := rl.Stmt.Key.(*ast.Ident)
				vid, _ := rl.Stmt.Value.(*ast.Ident)
				if kid != nil && vid != nil && core.UsesObj(info, calls[0].Args[0], info.Defs[kid]) && core.UsesObj(info, calls[0].Args[1], info.Defs[vid]) {
					// and a failed part returns false
					g := c.G(f)
					for _, ex := range g.Returns() {
						if within(rl.Stmt, ex.Return) && core.ExprString(ex.Return.Results[0]) == "false" {
							ok = true
						}
					}
				}
			}
		}
		if !ok {
			// the unrolled spelling: a single return of isValidPart(K0, n.Host) && … && isValidPart(K3, n.Tag)
			// with the kind constants 0..3 paired with Host, Namespace, Model, Tag
			if rs := core.SoleReturn(info, f.Body); rs != nil && len(rs.Results) == 1 {
				pairs := map[string]int64{}
				conj := true
				var walk func(e ast.Expr)
				walk = func(e ast.Expr) {
					e = ast.Unparen(e)
					if be, isB := e.(*ast.BinaryExpr); isB && be.Op == token.LAND {
						walk(be.X)
						walk(be.Y)
						return
					}
					call, isC := e.(*ast.CallExpr)
					if !isC || core.CalleeName(info, call) != modelNamePkg+".isValidPart" || len(call.Args) != 2 {
						conj = false
						return
					}
					if kv, isK := core.ConstInt(info, call.Args[0]); isK {
						pairs[selName(call.Args[1])] = kv
					} else {
						conj = false
					}
				}
				walk(rs.Results[0])
				ok = conj && len(pairs) == 4 && pairs["Host"] == 0 && pairs["Namespace"] == 1 && pairs["Model"] == 2 && pairs["Tag"] == 3
			}
		}
		// kind constants are iota in the same order: host=0, namespace=1, model=2, tag=3
		okOrder := mk["host"] == 0 && mk["namespace"] == 1 && mk["model"] == 2 && mk["tag"] == 3
		c.Check("C13-R1b", f.Key()+" validates all four parts with their kinds", c.Pos(f.Decl), ok && okOrder, "IsFullyQualified must run isValidPart(partKind(i), part) over {Host, Namespace, Model, Tag} and the kind constants must be 0..3 in that order")
	}
	if f := c.Fn("C13-R1b", namesPkg, "Name.IsValid"); f != nil {
		info := f.Info()
		got := map[string]string{}
		for _, call := range core.CallsTo(info, f.Body, false, namesPkg+".isValidPart") {
			if id, ok := ast.Unparen(call.Args[0]).(*ast.Ident); ok {
				got[id.Name] = selName(call.Args[1])
			}
		}
		ok := got["partHost"] == "h" && got["partNamespace"] == "n" && got["partModel"] == "m" && got["partTag"] == "t"
		c.Check("C13-R1b", f.Key()+" validates each part with its kind", c.Pos(f.Decl), ok, "found "+mapStr(got))
	}
	if f := c.Fn("C13-R1b", namesPkg, "Name.IsFullyQualified"); f != nil {
		info := f.Info()
		s := ""
		{
			if rs := core.SoleReturn(info, f.Body); rs != nil {
				s = core.ExprString(rs.Results[0])
			}
		}
		ok := len(core.CallsTo(info, f.Body, false, namesPkg+".Name.IsValid")) == 1
		nonEmpty := map[string]bool{}
		ast.Inspect(f.Body, func(x ast.Node) bool {
			if be, isB := x.(*ast.BinaryExpr); isB && be.Op == token.NEQ {
				if v, isS := core.ConstString(info, be.Y); isS && v == "" {
					if fv := core.FieldVar(info, be.X); fv != nil {
						nonEmpty[fv.Name()] = true
					}
				}
			}
			return true
		})
		for _, p := range []string{"h", "n", "m", "t"} {
			if !nonEmpty[p] {
				ok = false
			}
		}
		c.Check("C13-R1b", f.Key()+" = IsValid ∧ four non-empty parts", c.Pos(f.Decl), ok && !strings.Contains(s, "||"), "found "+s)
	}

	// ------------------------------------------------------------------ R2
	c.Rule("C13-R2", "digests: the pattern GetBlobsPath matches is anchored at both ends as a whole (no top-level alternation that lets an anchor apply to one branch only), contains no '.', separators or any-char, and the joined value is the matched string with ':' replaced by '-'; blob.ParseDigest yields a fixed-size array that GetFile formats with %x")
	if f := c.Fn("C13-R2", "server", "GetBlobsPath"); f != nil {
		info := f.Info()
		g := c.G(f)
		pat := ""
		for _, call := range core.Calls(f.Body, false) {
			n := core.CalleeName(info, call)
			if n == "regexp.MustCompile" || n == "regexp.Compile" || n == "regexp.MatchString" {
				if s, ok := core.ConstString(info, call.Args[0]); ok {
					pat = s
				} else if id, isID := ast.Unparen(call.Args[0]).(*ast.Ident); isID {
					as := g.AssignsTo(info.Uses[id])
					if len(as) == 1 {
						if a, isAs := as[0].Node.(*ast.AssignStmt); isAs && len(a.Rhs) == 1 {
							if s, ok := core.ConstString(info, a.Rhs[0]); ok {
								pat = s
							}
						}
					}
				}
			}
		}
		// a hoisted package-level regexp
		if pat == "" {
			for _, spec := range pkgVarInits(c, "server") {
				for _, call := range core.Calls(spec, false) {
					if n := core.CalleeName(info, call); n == "regexp.MustCompile" {
						if s, ok := core.ConstString(info, call.Args[0]); ok && strings.Contains(s, "sha256") {
							pat = s
						}
					}
				}
			}
		}
		ok, why := anchoredSafePattern(pat)
		c.Check("C13-R2", f.Key()+" digest pattern anchored and separator-free", c.Pos(f.Decl), ok, "pattern "+pat+": "+why)
		// the join operand is the validated parameter (after ReplaceAll), on the match edge
		joins := g.FindCalls("path/filepath.Join")
		c.Expect("C13-R2", "joins in GetBlobsPath", len(joins), 1)
		dp := paramAt(f, 0)
		for _, j := range joins {
			jc := j.Node.(*ast.CallExpr)
			last := jc.Args[len(jc.Args)-1]
			okOperand := false
			for _, x := range expand(g, last, 2) {
				if core.UsesObj(info, x, dp) {
					okOperand = true
				}
			}
			// a join of the models directory with constants only names the blobs directory itself
			fixedOnly := true
			for _, a := range jc.Args {
				if _, isC := core.ConstString(info, a); isC {
					continue
				}
				if call, isCall := ast.Unparen(a).(*ast.CallExpr); isCall && core.CalleeName(info, call) == "envconfig.Models" {
					continue
				}
				fixedOnly = false
			}
			if fixedOnly {
				c.OK("C13-R2", f.Key()+" join of fixed components at "+c.Pos(jc), c.Pos(jc), "models directory + constants")
				continue
			}
			// every path from the entry to the join has seen the pattern match the parameter, or the
			// parameter be empty (the blobs directory itself)
			okGuard := false
			if paths, complete := g.PathsTo(g.Entry(), j.Loc, 2000); complete && len(paths) > 0 {
				okGuard = true
				for _, p := range paths {
					seen := false
					for _, st := range p {
						if st.Edge < 0 {
							continue
						}
						e, isE := st.Node.(ast.Expr)
						if !isE {
							continue
						}
						if impliesValidated(info, e, st.Edge == 0, dp) {
							seen = true
						}
					}
					if !seen {
						okGuard = false
					}
				}
			}
			c.Check("C13-R2", f.Key()+" join only after the pattern matched", c.Pos(jc), okOperand && okGuard, "the digest must be joined to the blobs directory only on the path where the pattern test did not reject it")
		}
	}
	if f := c.Fn("C13-R2", blobPkg, "DiskCache.GetFile"); f != nil {
		info := f.Info()
		ok := false
		for _, call := range core.CallsTo(info, f.Body, false, "fmt.Sprintf") {
			if s, isS := core.ConstString(info, call.Args[0]); isS && s == "sha256-%x" && selName(call.Args[1]) == "sum" {
				ok = true
			}
		}
		if !ok {
			// the other spelling: string constants free of separators concatenated with the hex form of the
			// sum (hex.EncodeToString(d.sum[:]) directly or through a method of Digest that returns exactly that)
			hexOfSum := func(e ast.Expr) bool {
				call, isC := ast.Unparen(e).(*ast.CallExpr)
				if !isC {
					return false
				}
				isHex := func(c2 *ast.CallExpr, inf *types.Info) bool {
					if core.CalleeName(inf, c2) != "encoding/hex.EncodeToString" || len(c2.Args) != 1 {
						return false
					}
					sl, isSl := ast.Unparen(c2.Args[0]).(*ast.SliceExpr)
					return isSl && selName(sl.X) == "sum"
				}
				if isHex(call, info) {
					return true
				}
				fo, _ := core.Callee(info, call).(*types.Func)
				if fo == nil || len(call.Args) != 0 {
					return false
				}
				for _, hf := range c.P.FuncsOf(blobPkg) {
					if hf.Obj == nil || hf.Obj.FullName() != fo.FullName() || len(hf.Body.List) != 1 {
						continue
					}
					if r, isR := hf.Body.List[0].(*ast.ReturnStmt); isR && len(r.Results) == 1 {
						if c2, isC2 := ast.Unparen(r.Results[0]).(*ast.CallExpr); isC2 && isHex(c2, hf.Info()) {
							return true
						}
					}
				}
				return false
			}
			var parts func(e ast.Expr) (okAll bool, hexes int)
			parts = func(e ast.Expr) (bool, int) {
				e = ast.Unparen(e)
				if be, isB := e.(*ast.BinaryExpr); isB && be.Op == token.ADD {
					a, x := parts(be.X)
					b, y := parts(be.Y)
					return a && b, x + y
				}
				if sv, isS := core.ConstString(info, e); isS {
					return !strings.ContainsAny(sv, "/\\.") , 0
				}
				if hexOfSum(e) {
					return true, 1
				}
				return false, 0
			}
			ast.Inspect(f.Body, func(n ast.Node) bool {
				if as, isA := n.(*ast.AssignStmt); isA && len(as.Rhs) == 1 {
					if okAll, hexes := parts(as.Rhs[0]); okAll && hexes == 1 {
						ok = true
					}
				}
				return true
			})
		}
		c.Check("C13-R2", f.Key()+" formats only the digest array", c.Pos(f.Decl), ok, "GetFile must build the file name as sha256-%x of the [32]byte sum (or separator-free constants + hex.EncodeToString of the sum)")
	}

	// ------------------------------------------------------------------ R3 / R4
	c.Rule("C13-R3", "every path join under the model store takes only audited operand kinds: constants, the store roots, Name.Filepath() (self-validating), the four accessors of a names.Name on the IsFullyQualified edge, directory entries read from the store, the validated digest, a relative name on the fs.ValidPath edge")
	c.Rule("C13-R4", "fixed depth: Name.Filepath and nameToPath join exactly the four validated parts, in order, behind the IsFullyQualified test")
	joinInventory(c)

	// ------------------------------------------------------------------ R5
	c.Rule("C13-R5", "entry points validate: ModelPath.GetManifestPath joins only on the IsValid edge; ParseNameFromFilepath returns a non-zero name only on the IsFullyQualified edge; Registry.parseName returns a name only on the IsFullyQualified edge; Manifests skips entries whose name is not valid")
	if f := c.Fn("C13-R5", "server", "ModelPath.GetManifestPath"); f != nil {
		info := f.Info()
		g := c.G(f)
		for _, j := range g.FindCalls("path/filepath.Join") {
			ok := false
			for _, a := range g.AtomsAt(j.Loc) {
				if call, isC := ast.Unparen(a.Expr).(*ast.CallExpr); isC && a.Val && strings.HasSuffix(core.CalleeName(info, call), ".Name.IsValid") {
					ok = true
				}
			}
			c.Check("C13-R5", f.Key()+" join behind IsValid", c.Pos(j.Node), ok, "the manifest path must be built only for a valid name")
		}
	}
	if f := c.Fn("C13-R5", modelNamePkg, "ParseNameFromFilepath"); f != nil {
		info := f.Info()
		g := c.G(f)
		n := 0
		for _, ex := range g.Returns() {
			if len(ex.Return.Results) == 1 {
				if _, isLit := ast.Unparen(ex.Return.Results[0]).(*ast.CompositeLit); isLit {
					continue // zero name
				}
			}
			n++
			ok := false
			for _, a := range g.AtomsAt(ex.Loc) {
				if call, isC := ast.Unparen(a.Expr).(*ast.CallExpr); isC && a.Val && strings.HasSuffix(core.CalleeName(info, call), ".Name.IsFullyQualified") {
					ok = true
				}
			}
			c.Check("C13-R5", f.Key()+" non-zero result only when fully qualified", c.Pos(ex.Return), ok, "a name parsed from a file path may be returned only on the IsFullyQualified edge")
		}
		c.Expect("C13-R5", "non-zero returns of ParseNameFromFilepath", n, 1)
		// exactly four components
		okLen := false
		for _, cb := range g.CondBlocks() {
			if be, isB := ast.Unparen(cb.Cond).(*ast.BinaryExpr); isB && be.Op == token.NEQ {
				if v, isC := core.ConstInt(info, be.Y); isC && v == 4 {
					okLen = true
				}
			}
		}
		c.Check("C13-R5", f.Key()+" requires exactly four components", c.Pos(f.Decl), okLen, "a manifest file path has depth 4")
	}
	if f := c.Fn("C13-R5", regPkg, "Registry.parseName"); f != nil {
		info := f.Info()
		g := c.G(f)
		n := 0
		for _, ex := range g.Returns() {
			if g.ReturnKind(ex) != core.RetSuccess {
				continue
			}
			n++
			ok := false
			for _, a := range g.AtomsAt(ex.Loc) {
				if call, isC := ast.Unparen(a.Expr).(*ast.CallExpr); isC && a.Val && strings.HasSuffix(core.CalleeName(info, call), ".Name.IsFullyQualified") {
					ok = true
				}
			}
			c.Check("C13-R5", f.Key()+" success only for a fully qualified name", c.Pos(ex.Return), ok, "parseName must return a name only on the IsFullyQualified edge")
		}
		c.Expect("C13-R5", "success returns of parseName", n, 1)
	}
	if f := c.Fn("C13-R5", "server", "Manifests"); f != nil {
		info := f.Info()
		g := c.G(f)
		for _, h := range g.FindCalls("server.ParseNamedManifest") {
			ok := false
			for _, a := range g.AtomsAt(h.Loc) {
				if call, isC := ast.Unparen(a.Expr).(*ast.CallExpr); isC && a.Val && strings.HasSuffix(core.CalleeName(info, call), ".Name.IsValid") {
					ok = true
				}
			}
			c.Check("C13-R5", f.Key()+" only valid names are opened", c.Pos(h.Node), ok, "Manifests must skip directory entries that do not parse to a valid name")
		}
	}
}

func mapStr(m map[string]string) string {
	var ks []string
	for k := range m {
		ks = append(ks, k)
	}
	sort.Strings(ks)
	s := ""
	for _, k := range ks {
		s += k + "→" + m[k] + " "
	}
	return s
}

// pkgVarInits returns the value specs of package-level var declarations.
func pkgVarInits(c *Ctx, rel string) []ast.Node {
	var out []ast.Node
	for _, file := range c.P.Pkgs[rel].Syntax {
		for _, d := range file.Decls {
			if gd, ok := d.(*ast.GenDecl); ok && gd.Tok == token.VAR {
				for _, s := range gd.Specs {
					out = append(out, s)
				}
			}
		}
	}
	return out
}

// anchoredSafePattern: the regexp literal is ^...$ as a whole and matches no separator.
func anchoredSafePattern(pat string) (bool, string) {
	if pat == "" {
		return false, "no constant pattern found"
	}
	re, err := syntax.Parse(pat, syntax.Perl)
	if err != nil {
		return false, "does not parse: " + err.Error()
	}
	if re.Op != syntax.OpConcat || len(re.Sub) < 3 {
		return false, "top level is not a concatenation ^…$ (" + re.Op.String() + "): an alternation at top level makes each anchor apply to one branch only"
	}
	if re.Sub[0].Op != syntax.OpBeginText {
		return false, "does not start with ^"
	}
	if re.Sub[len(re.Sub)-1].Op != syntax.OpEndText {
		return false, "does not end with $"
	}
	bad := ""
	var walk func(r *syntax.Regexp, top bool)
	walk = func(r *syntax.Regexp, top bool) {
		switch r.Op {
		case syntax.OpAnyChar, syntax.OpAnyCharNotNL:
			bad = "contains '.' (any char)"
		case syntax.OpLiteral:
			for _, ru := range r.Rune {
				if ru == '/' || ru == '\\' || ru == '.' || ru == 0 {
					bad = "literal separator or dot"
				}
			}
		case syntax.OpCharClass:
			for i := 0; i+1 < len(r.Rune); i += 2 {
				for _, ru := range []rune{'/', '\\', '.', 0} {
					if r.Rune[i] <= ru && ru <= r.Rune[i+1] {
						bad = "character class admits a separator or dot"
					}
				}
			}
		case syntax.OpBeginText, syntax.OpEndText, syntax.OpBeginLine, syntax.OpEndLine:
			if !top {
				bad = "anchor inside a sub-expression"
			}
		case syntax.OpStar, syntax.OpPlus:
			bad = "unbounded repetition"
		}
		for _, s := range r.Sub {
			walk(s, false)
		}
	}
	for i, s := range re.Sub {
		if i == 0 || i == len(re.Sub)-1 {
			continue
		}
		walk(s, false)
	}
	if re.Flags&syntax.OneLine == 0 && strings.Contains(pat, "(?m") {
		bad = "multi-line mode"
	}
	if bad != "" {
		return false, bad
	}
	return true, "anchored, separator-free"
}

// joinInventory: C13-R3 / R4.
func joinInventory(c *Ctx) {
	type site struct {
		rel, fn string
	}
	// audited join sites: function -> operand classification (DESIGN Appendix A.3)
	audited := map[site]string{
		{"server", "convertFromSafetensors"}:    "temp dir + relative name on the fs.ValidPath edge",
		{"server", "fixBlobs"}:                  "directory of an existing blob + its own file name",
		{"server", "CopyModel"}:                 "manifests root + Name.Filepath()",
		{"server", "PruneLayers"}:               "blobs root + directory entry",
		{"server", "PruneDirectory"}:            "store path + directory entry",
		{"server", "ParseNamedManifest"}:        "manifests root + Name.Filepath()",
		{"server", "WriteManifest"}:             "manifests root + Name.Filepath()",
		{"server", "Manifests"}:                 "manifests root + constant glob",
		{"server", "ModelPath.GetManifestPath"}: "models root + constant + Name.Filepath() on the IsValid edge",
		{"server", "GetManifestPath"}:           "models root + constant",
		{"server", "GetBlobsPath"}:              "models root + constant + validated digest (R2)",
		{blobPkg, "Open"}:                       "cache root + constant sub-directory",
		{blobPkg, "DiskCache.GetFile"}:          "cache root + constant + sha256-%x of the digest array",
		{blobPkg, "DiskCache.manifestPath"}:     "constant + nameToPath result; cache root + existing link / that path",
		{blobPkg, "nameToPath"}:                 "four accessors of a fully qualified names.Name",
		{blobPkg, "absJoin"}:                    "variadic helper, callers audited (GetFile)",
		{modelNamePkg, "Name.Filepath"}:         "four parts behind IsFullyQualified",
	}
	n := 0
	for _, rel := range []string{"server", blobPkg, modelNamePkg} {
		for _, fn := range c.P.FuncsOf(rel) {
			info := fn.Info()
			for _, call := range core.Calls(fn.Body, true) {
				name := core.CalleeName(info, call)
				if name != "path/filepath.Join" && name != blobPkg+".absJoin" {
					continue
				}
				n++
				_, ok := audited[site{rel, fn.Name}]
				c.Check("C13-R3", fn.Key()+" call:"+name+" audited", c.Pos(call), ok, "path join in a function that is not in the audited table: classify its operands")
				if !ok {
					continue
				}
				// operand rules per site
				args := call.Args
				switch fn.Name {
				case "CopyModel", "ParseNamedManifest", "WriteManifest":
					last := args[len(args)-1]
					lc, isCall := ast.Unparen(last).(*ast.CallExpr)
					c.Check("C13-R3", fn.Key()+" join operand is Name.Filepath()", c.Pos(call), len(args) == 2 && isCall && core.CalleeName(info, lc) == modelNamePkg+".Name.Filepath", "manifest paths must be built from Name.Filepath(), which refuses unqualified names")
				case "ModelPath.GetManifestPath":
					last := args[len(args)-1]
					lc, isCall := ast.Unparen(last).(*ast.CallExpr)
					c.Check("C13-R3", fn.Key()+" join operand is Name.Filepath()", c.Pos(call), isCall && core.CalleeName(info, lc) == modelNamePkg+".Name.Filepath", "")
				case "nameToPath":
					g := c.G(fn)
					want := []string{"Host", "Namespace", "Model", "Tag"}
					ok := len(args) == 4
					var recv core.Path
					for i, a := range args {
						ac, isCall := ast.Unparen(a).(*ast.CallExpr)
						if !isCall {
							// a local that holds the accessor's result (host := n.Host(), also in a parallel assignment)
							if id, isId := ast.Unparen(a).(*ast.Ident); isId {
								if v, isV := info.Uses[id].(*types.Var); isV {
									if _, _, cnt := singleDef(info, fn.Body, v); cnt != 1 {
										continue
									}
									for _, x := range expand(g, a, 1) {
										if e, isE := x.(ast.Expr); isE && x != ast.Node(a) {
											ac, isCall = ast.Unparen(e).(*ast.CallExpr)
										}
									}
								}
							}
						}
						if !isCall || i >= 4 || core.CalleeName(info, ac) != namesPkg+".Name."+want[i] {
							ok = false
							continue
						}
						p := core.PathOf(info, ac.Fun.(*ast.SelectorExpr).X)
						if i == 0 {
							recv = p
						} else if !p.Valid() || p.Key() != recv.Key() {
							ok = false
						}
					}
					fq := false
					for _, a := range g.AtomsAt(g.Locate(call)) {
						ae := ast.Unparen(a.Expr)
						// `if q := n.IsFullyQualified(); !q`: the tested local holds the call's result
						if id, isId := ae.(*ast.Ident); isId {
							if v, isV := info.Uses[id].(*types.Var); isV {
								if rhs, _, cnt := singleDef(info, fn.Body, v); cnt == 1 && rhs != nil {
									ae = ast.Unparen(rhs)
								}
							}
						}
						if cc, isC := ae.(*ast.CallExpr); isC && a.Val && core.CalleeName(info, cc) == namesPkg+".Name.IsFullyQualified" {
							if p := core.PathOf(info, cc.Fun.(*ast.SelectorExpr).X); p.Valid() && recv.Valid() && p.Key() == recv.Key() {
								fq = true
							}
						}
					}
					// the name is parsed from the parameter
					parsed := false
					if recv.Valid() {
						for _, as := range g.AssignsTo(recv.Root) {
							if len(core.CallsTo(info, as.Node, false, namesPkg+".Parse")) == 1 {
								parsed = true
							}
						}
					}
					c.Check("C13-R4", fn.Key()+" joins exactly Host, Namespace, Model, Tag of the validated name", c.Pos(call), ok && fq && parsed, "nameToPath must join the four accessors of the names.Name it parsed, on the IsFullyQualified edge (never pieces of the raw string)")
				case "Name.Filepath":
					g := c.G(fn)
					want := []string{"Host", "Namespace", "Model", "Tag"}
					ok := len(args) == 4
					for i, a := range args {
						if i < 4 && selName(a) != want[i] {
							ok = false
						}
					}
					fq := false
					for _, a := range g.AtomsAt(g.Locate(call)) {
						if cc, isC := ast.Unparen(a.Expr).(*ast.CallExpr); isC && a.Val && core.CalleeName(info, cc) == modelNamePkg+".Name.IsFullyQualified" {
							fq = true
						}
					}
					c.Check("C13-R4", fn.Key()+" joins exactly the four parts behind IsFullyQualified", c.Pos(call), ok && fq, "Filepath must join Host, Namespace, Model, Tag and refuse (panic) any name that is not fully qualified")
				case "convertFromSafetensors":
					g := c.G(fn)
					ok := false
					for _, a := range g.AtomsAt(g.Locate(call)) {
						if cc, isC := ast.Unparen(a.Expr).(*ast.CallExpr); isC && core.CalleeName(info, cc) == "io/fs.ValidPath" {
							// `if !fs.ValidPath(fp) { return }` → join on the false edge of the negation = ValidPath true
							if a.Val && core.ExprString(cc.Args[0]) == core.ExprString(args[len(args)-1]) {
								ok = true
							}
						}
					}
					c.Check("C13-R3", fn.Key()+" relative name joined only on the fs.ValidPath edge", c.Pos(call), ok, "a client-supplied file name may be joined to the temp dir only after fs.ValidPath accepted it")
				case "PruneLayers", "PruneDirectory":
					last := args[len(args)-1]
					lc, isCall := ast.Unparen(last).(*ast.CallExpr)
					c.Check("C13-R3", fn.Key()+" join operand is a directory entry name", c.Pos(call), isCall && strings.HasSuffix(core.CalleeName(info, lc), "DirEntry.Name"), "")
				case "DiskCache.manifestPath":
					// operands: "manifests"+np (np from nameToPath ok edge) ; c.dir + l (existing link) ; c.dir + maybe
					g := c.G(fn)
					okNP := true
					for _, a := range args {
						p := core.PathOf(info, a)
						if _, isC := core.ConstString(info, a); isC {
							continue
						}
						if !p.Valid() {
							okNP = false
							continue
						}
						// classify the local by where its value comes from
						fromNameToPath, fromLinks, fromJoin := false, false, false
						if len(p.Fields) == 0 {
							for _, h := range g.FindCalls(blobPkg + ".nameToPath") {
								if core.ResultVar(info, h.Top, h.Node.(*ast.CallExpr), 0) == p.Root {
									if r, _ := g.OnSuccessOf(h, g.Locate(call)); r {
										fromNameToPath = true
									}
								}
							}
							for _, rl := range rangeLoops(fn) {
								if lc, isC := ast.Unparen(rl.Stmt.X).(*ast.CallExpr); isC && core.CalleeName(info, lc) == blobPkg+".DiskCache.links" {
									if id, isID := rl.Stmt.Key.(*ast.Ident); isID && info.Defs[id] == p.Root {
										fromLinks = true
									}
								}
							}
							// every assignment to the local is an audited value: the "manifests"+np join itself,
							// a local holding it, or the link of the current iteration
							asg := g.AssignsTo(p.Root)
							allAudited := len(asg) > 0
							for _, as := range asg {
								a, isA := as.Node.(*ast.AssignStmt)
								if !isA || len(a.Rhs) != 1 {
									allAudited = false
									continue
								}
								okA := len(core.CallsTo(info, a.Rhs[0], false, "path/filepath.Join")) == 1
								if id, isId := ast.Unparen(a.Rhs[0]).(*ast.Ident); isId {
									o := info.Uses[id]
									for _, as2 := range g.AssignsTo(o) {
										if a2, isA2 := as2.Node.(*ast.AssignStmt); isA2 && len(a2.Rhs) == 1 && len(core.CallsTo(info, a2.Rhs[0], false, "path/filepath.Join")) == 1 {
											okA = true
										}
									}
									for _, rl := range rangeLoops(fn) {
										if lc, isC := ast.Unparen(rl.Stmt.X).(*ast.CallExpr); isC && core.CalleeName(info, lc) == blobPkg+".DiskCache.links" {
											if kid, isK := rl.Stmt.Key.(*ast.Ident); isK && info.Defs[kid] == o {
												okA = true
											}
										}
									}
								}
								if !okA {
									allAudited = false
								}
							}
							fromJoin = allAudited
						}
						switch {
						case p.Last() != nil && p.Last().Name() == "dir":
						case fromNameToPath, fromLinks, fromJoin:
						default:
							okNP = false
						}
					}
					c.Check("C13-R3", fn.Key()+" join operands audited", c.Pos(call), okNP, "manifestPath may join only the cache root, the constant, the checked nameToPath result, or an existing link")
				}
			}
		}
	}
	c.Expect("C13-R3", "path join sites under the model store", n, 15)
	// the two name→path functions must return the audited four-part join and nothing else
	for _, x := range []struct{ rel, fn string }{{blobPkg, "nameToPath"}, {modelNamePkg, "Name.Filepath"}} {
		f := c.Fn("C13-R4", x.rel, x.fn)
		if f == nil {
			continue
		}
		info := f.Info()
		g := c.G(f)
		nRet := 0
		for _, ex := range g.Returns() {
			if g.ReturnKind(ex) == core.RetError || len(ex.Return.Results) == 0 {
				continue
			}
			r0 := ast.Unparen(g.ReturnedExpr(ex, 0))
			if s, isC := core.ConstString(info, r0); isC && s == "" {
				continue
			}
			nRet++
			call, isCall := r0.(*ast.CallExpr)
			c.Check("C13-R4", f.Key()+" returns the four-part join", c.Pos(ex.Return), isCall && core.CalleeName(info, call) == "path/filepath.Join" && len(call.Args) == 4,
				"the path of a name must be filepath.Join of its four validated parts (anything built from the raw string can carry unvalidated segments)")
		}
		c.Expect("C13-R4", "path-returning exits of "+x.fn, nRet, 1)
	}
	// other path constructors are not used under the store (closed list)
	for _, rel := range []string{"server", blobPkg, modelNamePkg} {
		for _, fn := range c.P.FuncsOf(rel) {
			for _, call := range core.Calls(fn.Body, true) {
				switch n := core.CalleeName(fn.Info(), call); n {
				case "path/filepath.FromSlash", "path.Join", "path/filepath.Clean":
					c.Check("C13-R3", fn.Key()+" call:"+n, c.Pos(call), false, "path constructor outside the audited join inventory")
				}
			}
		}
	}
	// absJoin callers
	for _, fn := range c.P.FuncsOf(blobPkg) {
		for _, call := range core.CallsTo(fn.Info(), fn.Body, true, blobPkg+".absJoin") {
			c.Check("C13-R3", fn.Key()+" absJoin caller audited", c.Pos(call), fn.Name == "DiskCache.GetFile", "absJoin may only be called from GetFile")
		}
	}
}

// impliesValidated: does knowing that e has the value val imply "the pattern matched p, or p is
// empty"?
func impliesValidated(info *types.Info, e ast.Expr, val bool, p types.Object) bool {
	return impliesAtom(e, val, func(a ast.Expr, v bool) bool {
		switch x := a.(type) {
		case *ast.BinaryExpr:
			if (x.Op == token.EQL || x.Op == token.NEQ) && isIdentOf(info, x.X, p) {
				if s, isS := core.ConstString(info, x.Y); isS && s == "" {
					return (x.Op == token.EQL) == v
				}
			}
		case *ast.CallExpr:
			n := core.CalleeName(info, x)
			if v && ((n == "regexp.Regexp.MatchString" && len(x.Args) == 1 && core.UsesObj(info, x.Args[0], p)) || (n == "regexp.MatchString" && len(x.Args) == 2 && core.UsesObj(info, x.Args[1], p))) {
				return true
			}
		}
		return false
	})
}

// impliesAtom: does knowing that e has the value val imply the goal, where sat says which
// atomic conditions (with their truth value) establish the goal on their own? Negation,
// conjunction and disjunction are followed in both polarities: a true a&&b needs one side
// to establish it, a false a&&b both, and dually for ||.
func impliesAtom(e ast.Expr, val bool, sat func(atom ast.Expr, val bool) bool) bool {
	e = ast.Unparen(e)
	switch x := e.(type) {
	case *ast.UnaryExpr:
		if x.Op == token.NOT {
			return impliesAtom(x.X, !val, sat)
		}
	case *ast.BinaryExpr:
		switch x.Op {
		case token.LAND:
			if val {
				return impliesAtom(x.X, true, sat) || impliesAtom(x.Y, true, sat)
			}
			return impliesAtom(x.X, false, sat) && impliesAtom(x.Y, false, sat)
		case token.LOR:
			if val {
				return impliesAtom(x.X, true, sat) && impliesAtom(x.Y, true, sat)
			}
			return impliesAtom(x.X, false, sat) || impliesAtom(x.Y, false, sat)
		}
	}
	return sat(e, val)
}

package props

// Round-6 rules (sixth set of seeded changes).

import (
	"go/ast"
	"go/token"
	"go/types"
	"strings"

	"verifcheck/core"
)

func init() {
	wrap := func(id string, extra func(c *Ctx)) {
		prev := registry[id].Run
		registry[id].Run = func(c *Ctx) { prev(c); extra(c) }
	}
	wrap("C01", extra6C01)
	wrap("C05", extra6C05)
	wrap("C11", extra6C11)
	wrap("C20", extra6C20)
	wrap("C14", extra6C14)
	wrap("C16", extra6C16)
	wrap("C17", extra6C17)
	registry["C16"].Pkgs = append(registry["C16"].Pkgs, "envconfig")
}

// ---------------------------------------------------------------------------------- C05

// own rejections of the gguf reader: returns of a non-nil error that are not the failure edge of a call
var ggufRejections = map[string]int{
	"gguf.Decode": 3, // unknown value type, alignment == 0, tensor size < 0 (all refuse files no writer produces)
}

func extra6C05(c *Ctx) {
	rule := "C05-R13"
	c.Rule(rule, "the reader refuses nothing the writer writes: the returns of gguf.Decode and of the read helpers it calls that hand back an error of their own — not on the failure edge of a read, seek or helper call, i.e. with no `err != nil` known of an error variable — are a closed inventory (zero alignment, negative tensor size, a string or array length that does not fit, an unknown value type); a new validation in the tensor-info loop (say, offsets must strictly increase) refuses a file WriteGGUF just produced — a zero-byte tensor shares its offset with the next one")
	n := 0
	for _, f := range c.P.FuncsOf(ggmlPkg) {
		if strings.HasSuffix(c.Pos(f.Body), "_test.go") || ggufWriterSide[f.Name] {
			continue
		}
		if f.Name != "gguf.Decode" {
			continue
		}
		info := f.Info()
		g := c.G(f)
		own := 0
		var last ast.Node
		for _, ex := range g.Returns() {
			if ex.Return == nil || len(ex.Return.Results) == 0 || g.ReturnKind(ex) != core.RetError {
				continue
			}
			n++
			// propagated: some error-typed variable is known non-nil here, or the returned expression is one
			propagated := false
			for _, a := range g.AtomsAt(ex.Loc) {
				if x, eq, isNil := core.IsNilCheck(info, a.Expr); isNil && (eq != a.Val) {
					if t := info.TypeOf(x); t != nil && types.Identical(t, types.Universe.Lookup("error").Type()) {
						propagated = true
					}
				}
			}
			if !propagated {
				own++
				last = ex.Return
			}
		}
		pos := c.Pos(f.Decl)
		if last != nil {
			pos = c.Pos(last)
		}
		c.Check(rule, f.Key()+" rejections of its own", pos, own <= ggufRejections[f.Name], "found "+itoa(own)+" returns of an error that is not a failed read, audited "+itoa(ggufRejections[f.Name])+": classify the new refusal (does the writer ever produce what it refuses?)")
	}
	c.Expect(rule, "error returns of gguf.Decode", n, 10)
}

// ---------------------------------------------------------------------------------- C14

func extra6C14(c *Ctx) {
	rule := "C14-R11"
	c.Rule(rule, "the stops the runner looks for are the stops the client sent: in both runners every value stored in Sequence.stop is NewSequenceParams.stop itself (or a plain copy of it: slices.Clone / append to an empty slice) and every value stored in NewSequenceParams.stop is the request's Options.Stop — no filtering or rewriting on the way (dropping white-space-only stops such as \"\\n\" lets the output run through them)")
	n := 0
	for _, pkg := range []string{ollamaRunnerPkg, llamaRunnerPkg} {
		p := c.P.Pkgs[pkg]
		if p == nil {
			continue
		}
		info := p.TypesInfo
		fSeqStop := c.P.LookupField(pkg, "Sequence", "stop")
		fParStop := c.P.LookupField(pkg, "NewSequenceParams", "stop")
		if fSeqStop == nil || fParStop == nil {
			c.Undecided(rule, "anchor:"+pkg+" Sequence.stop / NewSequenceParams.stop", "-", "anchor lost")
			continue
		}
		// plain: e is the wanted selector, or a copy of it
		var plain func(e ast.Expr, want func(se *ast.SelectorExpr) bool) bool
		plain = func(e ast.Expr, want func(se *ast.SelectorExpr) bool) bool {
			e = ast.Unparen(e)
			if se, ok := e.(*ast.SelectorExpr); ok {
				return want(se)
			}
			if call, ok := e.(*ast.CallExpr); ok {
				switch core.CalleeName(info, call) {
				case "slices.Clone":
					return len(call.Args) == 1 && plain(call.Args[0], want)
				case "builtin.append":
					if len(call.Args) == 2 && call.Ellipsis.IsValid() {
						// append([]string(nil) | []string{}, X...)
						first := ast.Unparen(call.Args[0])
						empty := false
						if cl, isCL := first.(*ast.CompositeLit); isCL && len(cl.Elts) == 0 {
							empty = true
						}
						if cv, isC := first.(*ast.CallExpr); isC && len(cv.Args) == 1 && info.Types[cv.Fun].IsType() {
							if id, isID := ast.Unparen(cv.Args[0]).(*ast.Ident); isID && id.Name == "nil" {
								empty = true
							}
						}
						return empty && plain(call.Args[1], want)
					}
				}
			}
			return false
		}
		isParStop := func(se *ast.SelectorExpr) bool { return core.FieldVar(info, se) == fParStop }
		isReqStop := func(se *ast.SelectorExpr) bool {
			fv := core.FieldVar(info, se)
			return fv != nil && fv.Name() == "Stop" && fv.Pkg() != nil && strings.HasSuffix(fv.Pkg().Path(), "/api")
		}
		for _, f := range c.P.FuncsOf(pkg) {
			if strings.HasSuffix(c.Pos(f.Body), "_test.go") {
				continue
			}
			ast.Inspect(f.Body, func(m ast.Node) bool {
				switch x := m.(type) {
				case *ast.KeyValueExpr:
					id, ok := x.Key.(*ast.Ident)
					if !ok {
						return true
					}
					switch info.Uses[id] {
					case types.Object(fSeqStop):
						n++
						c.Check(rule, f.Key()+" Sequence.stop = params.stop", c.Pos(x), plain(x.Value, isParStop), "the stop list of the sequence is `"+core.ExprString(x.Value)+"`, not the list the request carried")
					case types.Object(fParStop):
						n++
						c.Check(rule, f.Key()+" NewSequenceParams.stop = req.Options.Stop", c.Pos(x), plain(x.Value, isReqStop), "the stop list handed to NewSequence is `"+core.ExprString(x.Value)+"`, not the request's Options.Stop")
					}
				case *ast.AssignStmt:
					for i, l := range x.Lhs {
						if i >= len(x.Rhs) {
							continue
						}
						switch core.FieldVar(info, l) {
						case fSeqStop:
							n++
							c.Check(rule, f.Key()+" Sequence.stop = params.stop", c.Pos(x), plain(x.Rhs[i], isParStop), "the stop list of the sequence is `"+core.ExprString(x.Rhs[i])+"`, not the list the request carried")
						case fParStop:
							n++
							c.Check(rule, f.Key()+" NewSequenceParams.stop = req.Options.Stop", c.Pos(x), plain(x.Rhs[i], isReqStop), "the stop list handed to NewSequence is `"+core.ExprString(x.Rhs[i])+"`, not the request's Options.Stop")
						}
					}
				}
				return true
			})
		}
	}
	c.Expect(rule, "stores of the stop list in both runners", n, 4)
}

// ---------------------------------------------------------------------------------- C16

func extra6C16(c *Ctx) {
	rule := "C16-R10"
	c.Rule(rule, "the reserve the operator configured is the reserve subtracted: envconfig.GpuOverhead is <helper>(\"OLLAMA_GPU_OVERHEAD\", …) returning func() uint64, and every strconv.ParseUint reachable from that helper inside package envconfig parses into 64 bits (bit size constant 64) — a 32-bit parse refuses 4 GiB and more, the error is only logged, the overhead becomes 0 and the estimator plans into memory that was to stay free")
	ep := c.P.Pkgs["envconfig"]
	if ep == nil {
		c.Undecided(rule, "anchor:package envconfig", "-", "package not loaded")
		return
	}
	info := ep.TypesInfo
	var helper *types.Func
	for _, file := range ep.Syntax {
		for _, d := range file.Decls {
			gd, ok := d.(*ast.GenDecl)
			if !ok || gd.Tok != token.VAR {
				continue
			}
			for _, sp := range gd.Specs {
				vs := sp.(*ast.ValueSpec)
				for i, nm := range vs.Names {
					if nm.Name != "GpuOverhead" || i >= len(vs.Values) {
						continue
					}
					call, isC := ast.Unparen(vs.Values[i]).(*ast.CallExpr)
					if !isC || len(call.Args) < 1 {
						continue
					}
					if s, isS := core.ConstString(info, call.Args[0]); !isS || s != "OLLAMA_GPU_OVERHEAD" {
						continue
					}
					if fo, isF := core.Callee(info, call).(*types.Func); isF {
						if sig, isSig := info.TypeOf(call).Underlying().(*types.Signature); isSig && sig.Results().Len() == 1 && sig.Results().At(0).Type().String() == "uint64" {
							helper = fo
						}
					}
				}
			}
		}
	}
	c.Check(rule, "envconfig.GpuOverhead = <helper>(OLLAMA_GPU_OVERHEAD) func() uint64", "-", helper != nil, "GpuOverhead must be built from the OLLAMA_GPU_OVERHEAD key by a helper that returns func() uint64")
	if helper == nil {
		return
	}
	// functions of the package reachable from the helper (static calls, closures included)
	byObj := map[*types.Func]*core.Func{}
	for _, f := range c.P.FuncsOf("envconfig") {
		if f.Obj != nil {
			byObj[f.Obj] = f
		}
	}
	seen := map[*types.Func]bool{}
	work := []*types.Func{helper}
	n := 0
	for len(work) > 0 {
		fo := work[len(work)-1]
		work = work[:len(work)-1]
		if seen[fo] || byObj[fo] == nil {
			continue
		}
		seen[fo] = true
		f := byObj[fo]
		for _, call := range core.Calls(f.Body, true) {
			if core.CalleeName(info, call) == "strconv.ParseUint" && len(call.Args) == 3 {
				n++
				bits, isC := core.ConstInt(info, call.Args[2])
				c.Check(rule, f.Key()+" parses 64 bits", c.Pos(call), isC && bits == 64, "bit size "+core.ExprString(call.Args[2])+": values of 4 GiB and more fail to parse and the default (no reserve) is used")
			}
			if callee, isF := core.Callee(info, call).(*types.Func); isF && callee.Pkg() == ep.Types {
				work = append(work, callee)
			}
		}
	}
	c.Expect(rule, "ParseUint calls behind GpuOverhead", n, 1)
}

// ---------------------------------------------------------------------------------- C17

func extra6C17(c *Ctx) {
	rule := "C17-R13"
	c.Rule(rule, "what was decoded is kept when the text stops short: in parseObjects every test for io.EOF / io.ErrUnexpectedEOF on the decoder's error leads, on its true edge, only to returns of the list the loop appends to — and the unexpected-EOF case is tested — so a complete tool call followed by one cut off by the token limit is found whether the text arrives whole (non-streamed) or the first call's last byte ends a chunk (streamed); returning nil there makes the two paths, and different splits of one output, disagree")
	if f := c.Fn(rule, "server", "parseObjects"); f != nil {
		info := f.Info()
		// parseObjects may be a wrapper around the function that holds the decode loop (it returns that
		// function's first result): the loop is what the rule is about
		if len(core.CallsTo(info, f.Body, true, "builtin.append")) == 0 {
			for _, call := range core.Calls(f.Body, false) {
				if callee := funcByObj(c, f.Pkg.PkgPath, core.Callee(info, call)); callee != nil && len(core.CallsTo(callee.Info(), callee.Body, true, "builtin.append")) > 0 {
					f = callee
					info = f.Info()
					break
				}
			}
		}
		g := c.G(f)
		// the accumulating list: the variable assigned from append(itself, …)
		var list types.Object
		ast.Inspect(f.Body, func(m ast.Node) bool {
			as, ok := m.(*ast.AssignStmt)
			if !ok || len(as.Lhs) != 1 || len(as.Rhs) != 1 {
				return true
			}
			call, isC := ast.Unparen(as.Rhs[0]).(*ast.CallExpr)
			if !isC || core.CalleeName(info, call) != "builtin.append" || len(call.Args) < 2 {
				return true
			}
			if id, isID := as.Lhs[0].(*ast.Ident); isID && isIdentOf(info, call.Args[0], info.ObjectOf(id)) {
				list = info.ObjectOf(id)
			}
			return true
		})
		if list == nil {
			c.Undecided(rule, "anchor:list appended to in parseObjects", "-", "anchor lost")
			return
		}
		sentinels := map[string]bool{}
		n := 0
		for _, cb := range g.CondBlocks() {
			var hit []string
			ast.Inspect(cb.Cond, func(m ast.Node) bool {
				call, ok := m.(*ast.CallExpr)
				if !ok || core.CalleeName(info, call) != "errors.Is" || len(call.Args) != 2 {
					return true
				}
				switch core.ExprString(call.Args[1]) {
				case "io.EOF", "io.ErrUnexpectedEOF":
					hit = append(hit, core.ExprString(call.Args[1]))
				}
				return true
			})
			if len(hit) == 0 || len(cb.B.Succs) != 2 {
				continue
			}
			// a condition made of these tests joined by || (or one of them): its true edge is "the text ended"
			pure := true
			var walkCond func(e ast.Expr)
			walkCond = func(e ast.Expr) {
				e = ast.Unparen(e)
				if be, ok := e.(*ast.BinaryExpr); ok && be.Op == token.LOR {
					walkCond(be.X)
					walkCond(be.Y)
					return
				}
				if call, ok := e.(*ast.CallExpr); !ok || core.CalleeName(info, call) != "errors.Is" {
					pure = false
				}
			}
			walkCond(cb.Cond)
			if !pure {
				continue
			}
			n++
			for _, h := range hit {
				sentinels[h] = true
			}
			bad := ""
			reached := 0
			g.Walk(core.StartOf(cb.B.Succs[0]), func(m ast.Node, l core.Loc) bool {
				if ret, isR := m.(*ast.ReturnStmt); isR {
					reached++
					if len(ret.Results) == 0 && f.Type.Results != nil && len(f.Type.Results.List) > 0 && len(f.Type.Results.List[0].Names) > 0 && info.Defs[f.Type.Results.List[0].Names[0]] == list {
						return true // naked return of the named result that is the list
					}
					if len(ret.Results) < 1 || !isIdentOf(info, ret.Results[0], list) {
						bad = "return at " + c.Pos(ret) + " drops the objects decoded so far"
					}
					return true
				}
				// back at the head of the loop: the text did not end here after all
				return false
			})
			c.Check(rule, f.Key()+" end of text#"+itoa(n)+" keeps the decoded objects", c.Pos(cb.Cond), bad == "" && reached > 0, bad)
		}
		c.Check(rule, f.Key()+" a text that stops inside a value is an end of text", c.Pos(f.Decl), sentinels["io.ErrUnexpectedEOF"] && sentinels["io.EOF"], "no test of io.ErrUnexpectedEOF / io.EOF: the cut-off case falls into the generic error exit")
	}

	rule = "C17-R14"
	c.Rule(rule, "streamed tool calls keep the index the server gave them: openai.toToolCalls copies each call's Function.Index (assigned by ChatHandler from a counter that runs across the chunks of one answer) into the OpenAI Index — the position inside the chunk's own slice is 0 for every call that arrives in a chunk of its own, and a client that joins deltas by index glues their arguments together")
	if f := c.Fn(rule, "openai", "toToolCalls"); f != nil {
		info := f.Info()
		n := 0
		ast.Inspect(f.Body, func(m ast.Node) bool {
			as, ok := m.(*ast.AssignStmt)
			if !ok || len(as.Lhs) != 1 || len(as.Rhs) != 1 {
				return true
			}
			se, isS := ast.Unparen(as.Lhs[0]).(*ast.SelectorExpr)
			if !isS || se.Sel.Name != "Index" || core.ObjNameOfType(info.TypeOf(se.X)) != "openai.ToolCall" {
				return true
			}
			n++
			ok2 := false
			if rs, isR := ast.Unparen(as.Rhs[0]).(*ast.SelectorExpr); isR && rs.Sel.Name == "Index" {
				if fv := core.FieldVar(info, rs); fv != nil && fv.Pkg() != nil && strings.HasSuffix(fv.Pkg().Path(), "/api") {
					// of the element being converted: the current element of the loop around the store
					// (range value, list[i], or a local initialised from it such as fn := tc[i].Function)
					g := c.G(f)
					for _, lp := range listLoops(info, f.Body) {
						if !within(lp.Stmt, as) {
							continue
						}
						for _, x := range expand(g, rs.X, 2) {
							ast.Inspect(x, func(q ast.Node) bool {
								if e, isE := q.(ast.Expr); isE && lp.IsElem(e) {
									ok2 = true
								}
								return true
							})
						}
					}
				}
			}
			c.Check(rule, f.Key()+" Index = the call's Function.Index", c.Pos(as), ok2, "Index is `"+core.ExprString(as.Rhs[0])+"`")
			return true
		})
		c.Expect(rule, "stores of ToolCall.Index in toToolCalls", n, 1)
	}
}

// ---------------------------------------------------------------------------------- C01

func extra6C01(c *Ctx) {
	rule := "C01-R14"
	m := newSchedModel(c, rule)
	info := m.info
	c.Rule(rule, "a finished event is posted only for a request that took a reference: every send on finishedReqCh (also through the channel parameter of useLoadedRunner) sits in a function in which `refCount++` of the runner — or the creation of the runner with `refCount: 1`, the loader's initial reference — dominates the send (or the go statement whose goroutine sends) — the finish handler looks the runner up by model path and decrements whatever it finds, so an event for a request that was skipped while queued takes the reference of another request for the same model and the runner is closed under it")
	n := 0
	for _, op := range m.opsOn(m.fFinished, true) {
		n++
		root := op.Fn
		for root.Parent != nil {
			root = root.Parent
		}
		g := c.G(root)
		// the node of the root function that contains the send (the go statement for a goroutine)
		var at *core.Hit
		for _, h := range g.Find(func(nd ast.Node) bool { return within(nd, op.Node) }) {
			hh := h
			at = &hh
		}
		ok := false
		if at != nil {
			for _, st := range m.fieldStores(m.fRefCount) {
				if st.Fn != root {
					continue
				}
				if st.Tok == token.INC && g.Dominates(g.Locate(st.Node), at.Loc) {
					ok = true
				}
				// the loader's initial reference: the runner is created with `refCount: <constant >= 1>`
				if kv, isKV := st.Node.(*ast.KeyValueExpr); st.Lit && isKV {
					if v, isC := core.ConstInt(info, kv.Value); isC && v >= 1 {
						for _, h := range g.Find(func(nd ast.Node) bool { return within(nd, kv) }) {
							if g.Dominates(h.Loc, at.Loc) {
								ok = true
							}
						}
					}
				}
			}
		}
		c.Check(rule, op.Fn.Key()+" send:finishedReqCh for a request that holds a reference", c.Pos(op.Node), ok, "no refCount++ dominates this finished event in "+root.Key())
	}
	c.Expect(rule, "sends on finishedReqCh", n, 1)
	_ = info
}

// ---------------------------------------------------------------------------------- C11

func extra6C11(c *Ctx) {
	rule := "C11-R17"
	c.Rule(rule, "the fit is predicted for the context the runner will be started with: in pickBestFullFitByLibrary every PredictServerFit call inside a loop over the candidate parallel settings is dominated, within that loop's body, by the store req.opts.NumCtx = req.origNumCtx * <the candidate> — the multi-GPU attempt without it predicts with the context of the last single-GPU candidate (parallel = 1), the runner is then started with parallel = 4 and a quarter of the context per slot, and needsReload (which divides by numParallel) finds every identical request incompatible")
	f := c.Fn(rule, "server", "pickBestFullFitByLibrary")
	if f == nil {
		return
	}
	info := f.Info()
	g := c.G(f)
	n := 0
	for _, h := range g.FindCalls("llm.PredictServerFit") {
		// innermost range loop whose value is an int candidate (numParallelToTry)
		var loop *ast.RangeStmt
		for _, rl := range rangeLoops(f) {
			if !within(rl.Stmt.Body, h.Node) || rl.Stmt.Value == nil {
				continue
			}
			vid, isV := rl.Stmt.Value.(*ast.Ident)
			if !isV {
				continue
			}
			if b, isB := info.TypeOf(vid).Underlying().(*types.Basic); isB && b.Info()&types.IsInteger != 0 {
				if loop == nil || within(loop, rl.Stmt) {
					loop = rl.Stmt
				}
			}
		}
		if loop == nil {
			continue
		}
		n++
		cand := info.Defs[loop.Value.(*ast.Ident)]
		ok := false
		for _, st := range g.Find(func(nd ast.Node) bool {
			as, isA := nd.(*ast.AssignStmt)
			if !isA || len(as.Lhs) != 1 || len(as.Rhs) != 1 || !within(loop.Body, as) {
				return false
			}
			if selName(as.Lhs[0]) != "NumCtx" || !mentionsSel(as.Lhs[0], "opts") {
				return false
			}
			be, isB := ast.Unparen(as.Rhs[0]).(*ast.BinaryExpr)
			return isB && be.Op == token.MUL && mentionsSel(be, "origNumCtx") && core.UsesObj(info, be, cand)
		}) {
			if g.Dominates(st.Loc, h.Loc) {
				ok = true
			}
		}
		c.Check(rule, f.Key()+" PredictServerFit#"+itoa(n)+" with the candidate's context", c.Pos(h.Node), ok, "no `req.opts.NumCtx = req.origNumCtx * "+cand.Name()+"` in this loop before the prediction")
	}
	c.Expect(rule, "predictions inside candidate loops of pickBestFullFitByLibrary", n, 2)
}

// ---------------------------------------------------------------------------------- C20

func extra6C20(c *Ctx) {
	rule := "C20-R9"
	c.Rule(rule, "the text that is tokenised is the text that was given: in both Encode functions a fragment's value reaches the tokeniser only through the audited steps — slicing at a special literal, BytePairEncoding.split, conversion to bytes or runes, the vocabulary look-up, and (sentencepiece) strings.ReplaceAll(value, \" \", \"▁\"), whose inverse Decode applies; any other function applied to it (Unicode normalisation, trimming, case folding) cannot be undone by Decode, so the round trip returns different text")
	info := c.P.Pkgs["model"].TypesInfo
	fVal := c.P.LookupField("model", "fragment", "value")
	if fVal == nil {
		c.Undecided(rule, "anchor:model.fragment.value", "-", "anchor lost")
		return
	}
	n := 0
	for _, fname := range []string{"BytePairEncoding.Encode", "SentencePieceModel.Encode"} {
		f := c.Fn(rule, "model", fname)
		if f == nil {
			continue
		}
		var stack []ast.Node
		ast.Inspect(f.Body, func(nd ast.Node) bool {
			if nd == nil {
				stack = stack[:len(stack)-1]
				return true
			}
			stack = append(stack, nd)
			se, ok := nd.(*ast.SelectorExpr)
			if !ok || core.FieldVar(info, se) != fVal {
				return true
			}
			// only reads
			if len(stack) >= 2 {
				if kv, isKV := stack[len(stack)-2].(*ast.KeyValueExpr); isKV && kv.Key == ast.Expr(se) {
					return true
				}
			}
			n++
			// climb through the calls this value is an argument of
			var cur ast.Node = se
			bad := ""
			for i := len(stack) - 2; i >= 0; i-- {
				par := stack[i]
				switch x := par.(type) {
				case *ast.ParenExpr, *ast.SliceExpr:
					cur = par
					continue
				case *ast.CallExpr:
					isArg := false
					for _, a := range x.Args {
						if a == cur {
							isArg = true
						}
					}
					if !isArg {
						break
					}
					name := core.CalleeName(info, x)
					switch {
					case info.Types[x.Fun].IsType(): // []byte(v), []rune(v), string(v)
					case name == "strings.Index", name == "builtin.len", name == "builtin.append", name == "model.BytePairEncoding.split", name == "model.Vocabulary.Encode", strings.HasPrefix(name, "log/slog."):
					case name == "strings.ReplaceAll":
						from, ok1 := core.ConstString(info, x.Args[1])
						to, ok2 := core.ConstString(info, x.Args[2])
						if !(len(x.Args) == 3 && x.Args[0] == cur && ok1 && ok2 && from == " " && to == "\u2581") {
							bad = core.ExprString(x)
						}
					default:
						bad = core.ExprString(x.Fun)
					}
					cur = par
					if name == "strings.Index" || name == "builtin.len" {
						i = -1 // an index or a length is not the text any more
					}
					continue
				}
				break
			}
			c.Check(rule, f.Key()+" fragment text use#"+itoa(n)+" untransformed", c.Pos(se), bad == "", "the fragment's text passes through `"+bad+"` before it is tokenised: Decode does not undo that")
			return true
		})
	}
	c.Expect(rule, "reads of fragment.value in the Encode functions", n, 8)
}

#!/bin/bash
# replays every stored refactor against ALL twenty properties (a refactor written for one property often
# touches a function another property's rules read); prints "ALARM <refactor> <property>" for every alarm and
# compares the set with refactors/EXPECTED_ALARMS.txt (exit 1 on any difference)
cd /verif
ALL=$(for i in $(seq 1 20); do printf "C%02d " $i; done)
one() {
  d=$1; id=$(basename $d)
  MUTLINES=1 MUTDIR=/tmp/crossrepo-$id VERIF_OUT=/tmp/crossverif-$id scripts/mut.sh $d/patch.diff $ALL 2>&1 | grep "PATCH FAILED\|tier=" | grep -v " 0 violated, 0 undecided" | while read p rest; do echo "ALARM $id $p"; done
  rm -rf /tmp/crossrepo-$id /tmp/crossverif-$id
}
export -f one; export ALL
ls -d refactors/C*-* | xargs -P 8 -L 1 bash -c 'one $0' | sort > /tmp/cross_refactors.out
cat /tmp/cross_refactors.out
python3 - <<'PY'
import sys
exp=set()
for l in open('/verif/refactors/EXPECTED_ALARMS.txt'):
    if l.startswith('#') or not l.strip(): continue
    a=l.split()
    for p in a[1].split(','): exp.add((a[0],p))
got=set()
for l in open('/tmp/cross_refactors.out'):
    a=l.split(); got.add((a[1],a[2]))
print('unexpected alarms:',sorted(got-exp)); print('expected but silent:',sorted(exp-got))
sys.exit(1 if got!=exp else 0)
PY

#!/bin/bash
# replays every seeded change and every revert mutant (quick tier) and lists the ones not detected
cd /verif
fail=0
for d in seeded/C*-*; do id=$(basename $d); p=${id%%-*}; [ -f $d/patch.diff ] || continue
  r=$(MUTLINES=1 scripts/mut.sh $d/patch.diff $p 2>&1 | grep "PATCH FAILED\|tier=" | head -1)
  if echo "$r" | grep -q "PATCH FAILED"; then echo "NOAPPLY $id"; fail=1; continue; fi
  if echo "$r" | grep -q " 0 violated, 0 undecided"; then echo "MISSED $id"; fail=1; fi
done
python3 - <<'PY' > /tmp/mutlist.txt
import json
d=json.load(open('/verif/mutants/INDEX.json'))
for k,v in d.items():
    if v.get('tier')=='thorough': continue
    print(k, ' '.join(v['properties']))
PY
while read m props; do
  det=0
  for p in $props; do
    r=$(MUTLINES=1 scripts/mut.sh $m $p 2>&1 | grep "PATCH FAILED\|tier=" | head -1)
    echo "$r" | grep -q "PATCH FAILED" && { echo "NOAPPLY $m"; fail=1; det=1; break; }
    echo "$r" | grep -q " 0 violated, 0 undecided" || det=1
  done
  [ $det = 0 ] && { echo "MISSED $m ($props)"; fail=1; }
done < /tmp/mutlist.txt
echo "controls replayed; fail=$fail"

package props

import (
	"go/ast"
	"go/token"
	"go/types"
	"sort"
	"strings"

	"verifcheck/core"
)

func init() {
	p := registry["C10"]
	prev := p.Run
	p.Pkgs = append(p.Pkgs, "llm")
	p.Run = func(c *Ctx) { prev(c); extraC10Consumers(c) }
}

// extraC10Consumers is C10-R9: the sink analysis of R1 applied to the code that consumes decoded
// metadata outside fs/ggml in goroutines that gin's recovery middleware does not cover.
func extraC10Consumers(c *Ctx) {
	c.Rule("C10-R9", "consumers of decoded metadata outside fs/ggml that run where a panic ends the server — package llm (memory estimate and runner start, called from the scheduler) and the functions of package server reachable from a goroutine the package starts itself (scheduler loops, the create goroutine) — do not let a file-controlled integer reach a divisor, an index, a slice bound or an allocation size without a dominating test; sources are the ggml.KV accessors, elements of a ggml.KV and the Shape/Kind/Offset of a decoded tensor. Handler goroutines are not in scope: a panic there is answered with 500 by the recovery middleware")
	sinfo := c.P.Pkgs["server"].TypesInfo
	sfns := c.P.FuncsOf("server")
	byName := map[string]*core.Func{}
	for _, f := range sfns {
		if f.Obj != nil {
			byName[f.Obj.FullName()] = f
		}
	}
	// units: a top-level function (with its literals) or a literal started with `go`
	type unit struct {
		top  *core.Func
		root *core.Func // the literal, nil for a whole function
	}
	reach := map[string]bool{}
	var units []unit
	var work []*core.Func
	addTop := func(f *core.Func) {
		if f != nil && !reach[f.Key()] && !strings.HasSuffix(c.Pos(f.Body), "_test.go") {
			reach[f.Key()] = true
			units = append(units, unit{top: f})
			work = append(work, f)
		}
	}
	callees := func(body ast.Node) {
		for _, call := range core.Calls(body, true) {
			if fo, ok := core.Callee(sinfo, call).(*types.Func); ok {
				addTop(byName[fo.FullName()])
			}
		}
	}
	nGo := 0
	for _, f := range sfns {
		if strings.HasSuffix(c.Pos(f.Body), "_test.go") {
			continue
		}
		ast.Inspect(f.Body, func(n ast.Node) bool {
			g, isGo := n.(*ast.GoStmt)
			if !isGo {
				return true
			}
			nGo++
			if lit, isLit := ast.Unparen(g.Call.Fun).(*ast.FuncLit); isLit {
				for _, l := range f.Lits() {
					if l.Lit == lit && !reach[l.Key()] {
						reach[l.Key()] = true
						units = append(units, unit{top: f, root: l})
						callees(l.Body)
					}
				}
			} else if fo, ok := core.Callee(sinfo, g.Call).(*types.Func); ok {
				addTop(byName[fo.FullName()])
			}
			return true
		})
	}
	for len(work) > 0 {
		f := work[0]
		work = work[1:]
		callees(f.Body)
	}
	for _, f := range c.P.FuncsOf("llm") {
		if !strings.HasSuffix(c.Pos(f.Body), "_test.go") {
			units = append(units, unit{top: f})
		}
	}
	c.Expect("C10-R9", "go statements in package server (roots of the unrecovered code)", nGo, 12)
	nU, nF, nS := 0, 0, 0
	for _, u := range units {
		nU++
		var fs []*core.Func
		if u.root == nil {
			fs = append([]*core.Func{u.top}, u.top.Lits()...)
		} else {
			fs = []*core.Func{u.root}
			for _, l := range u.top.Lits() {
				if l != u.root && l.Lit.Pos() >= u.root.Lit.Pos() && l.Lit.End() <= u.root.Lit.End() {
					fs = append(fs, l)
				}
			}
		}
		// literals see the variables of the function around them
		parent := newTaintCtx(c, u.top, nil).tainted
		had := false
		for _, f := range fs {
			tc := newTaintCtx(c, f, parent)
			reports := tc.sinks()
			if len(reports) == 0 {
				continue
			}
			had = true
			sort.Slice(reports, func(a, b int) bool { return reports[a].node.Pos() < reports[b].node.Pos() })
			seq := map[string]int{}
			for _, r := range reports {
				nS++
				k := r.kind + ":" + tc.stableExpr(r.what, r.node)
				seq[k]++
				key := f.Key() + " " + k
				if seq[k] > 1 {
					key += "#" + itoa(seq[k])
				}
				c.Check("C10-R9", key, c.Pos(r.node), r.ok, "file-controlled value ("+r.why+") reaches "+r.kind+" `"+r.what+"` without "+r.need)
			}
		}
		if had {
			nF++
		}
	}
	c.Expect("C10-R9", "functions and goroutine bodies analysed", nU, 100)
	c.Expect("C10-R9", "of them with sink uses of file-controlled values", nF, 1)
	c.Expect("C10-R9", "sink uses of file-controlled values in consumers", nS, 2)
}

func init() {
	prev := registry["C10"].Run
	registry["C10"].Run = func(c *Ctx) { prev(c); extraC10Sniff(c) }
}

// extraC10Sniff is C10-R10: ggml.DetectContentType reads b[:4] without looking at len(b); that is
// in bounds only while every caller hands it a slice whose capacity is at least 4.
func extraC10Sniff(c *Ctx) {
	rule := "C10-R10"
	c.Rule(rule, "the magic-number sniff never slices past its argument: ggml.DetectContentType evaluates b[:4] unconditionally, so either it tests len(b) first or every call site passes a slice with capacity >= 4 by construction — make([]byte, n) with a constant n >= 4, or the Bytes() of a bytes.Buffer filled through Buffer.ReadFrom (io.CopyN, or io.Copy from a source whose type has no WriteTo), which grows the buffer by bytes.MinRead before the first read even for an empty source; a []byte parameter is followed to the call sites of its function (an uploaded file shorter than four bytes must get an error response, not a slice-bounds panic in the create goroutine)")
	dct := c.P.LookupFunc(ggmlPkg, "DetectContentType")
	if dct == nil {
		c.Undecided(rule, "anchor:func:"+ggmlPkg+".DetectContentType", "-", "anchor lost")
		return
	}
	// callee-side guard?
	{
		g := c.G(dct)
		info := dct.Info()
		p0 := paramAt(dct, 0)
		guarded := true
		nSl := 0
		for _, h := range g.Find(func(n ast.Node) bool { _, ok := n.(*ast.SliceExpr); return ok }) {
			sl := h.Node.(*ast.SliceExpr)
			if !isIdentOf(info, sl.X, p0) {
				continue
			}
			nSl++
			ok := false
			for _, a := range g.AtomsAt(h.Loc) {
				if be, isB := ast.Unparen(a.Expr).(*ast.BinaryExpr); isB {
					if call, isC := ast.Unparen(be.X).(*ast.CallExpr); isC && core.CalleeName(info, call) == "builtin.len" && isIdentOf(info, call.Args[0], p0) {
						v, isV := core.ConstInt(info, be.Y)
						if isV && ((be.Op == token.GEQ && a.Val && v >= 4) || (be.Op == token.LSS && !a.Val && v >= 4) || (be.Op == token.GTR && a.Val && v >= 3)) {
							ok = true
						}
					}
				}
			}
			if !ok {
				guarded = false
			}
		}
		if nSl > 0 && guarded {
			c.OK(rule, dct.Key()+" tests the length itself", c.Pos(dct.Body), "")
			return
		}
	}
	type fnKey = string
	byName := map[fnKey]*core.Func{}
	var all []*core.Func
	for _, pkg := range []string{"server", "llm", ggmlPkg} {
		for _, f := range c.P.FuncsOf(pkg) {
			if strings.HasSuffix(c.Pos(f.Body), "_test.go") {
				continue
			}
			all = append(all, f)
			if f.Obj != nil {
				byName[f.Obj.FullName()] = f
			}
		}
	}
	callSites := func(target *core.Func) (out []struct {
		f    *core.Func
		call *ast.CallExpr
	}) {
		for _, f := range all {
			for _, call := range core.Calls(f.Body, true) {
				if fo, ok := core.Callee(f.Info(), call).(*types.Func); ok && target.Obj != nil && fo.FullName() == target.Obj.FullName() {
					out = append(out, struct {
						f    *core.Func
						call *ast.CallExpr
					}{f, call})
				}
			}
		}
		return
	}
	noWriteTo := func(t types.Type) bool {
		if t == nil {
			return false
		}
		if _, isIface := t.Underlying().(*types.Interface); isIface {
			return false // dynamic type unknown
		}
		for _, tt := range []types.Type{t, types.NewPointer(t)} {
			if types.NewMethodSet(tt).Lookup(nil, "WriteTo") != nil {
				return false
			}
		}
		return true
	}
	paramIndex := func(f *core.Func, o types.Object) int {
		for i := 0; ; i++ {
			p := paramAt(f, i)
			if p == nil {
				return -1
			}
			if p == o {
				return i
			}
		}
	}
	var srcOK func(f *core.Func, e ast.Expr, depth int) (bool, string)
	srcOK = func(f *core.Func, e ast.Expr, depth int) (bool, string) {
		info := f.Info()
		t := info.Types[e].Type
		if noWriteTo(t) {
			return true, ""
		}
		if id, ok := ast.Unparen(e).(*ast.Ident); ok && depth < 3 {
			if pi := paramIndex(f, info.Uses[id]); pi >= 0 {
				sites := callSites(f)
				if len(sites) == 0 {
					return false, "no call site of " + f.Name + " fixes the reader's type"
				}
				for _, s := range sites {
					if pi >= len(s.call.Args) {
						return false, "variadic call"
					}
					if ok, why := srcOK(s.f, s.call.Args[pi], depth+1); !ok {
						return false, why
					}
				}
				return true, ""
			}
		}
		ts := "?"
		if t != nil {
			ts = t.String()
		}
		return false, "the source " + core.ExprString(e) + " (" + ts + ") may implement io.WriterTo: io.Copy then never calls Buffer.ReadFrom and an empty source leaves a buffer without capacity"
	}
	var capOK func(f *core.Func, at *ast.CallExpr, e ast.Expr, depth int) (bool, string)
	capOK = func(f *core.Func, at *ast.CallExpr, e ast.Expr, depth int) (bool, string) {
		info := f.Info()
		g := c.G(f)
		e = ast.Unparen(e)
		switch x := e.(type) {
		case *ast.Ident:
			o := info.Uses[x]
			if pi := paramIndex(f, o); pi >= 0 && depth < 3 {
				sites := callSites(f)
				if len(sites) == 0 {
					return false, "parameter " + x.Name + " of " + f.Name + " has no call site to follow"
				}
				for _, s := range sites {
					if ok, why := capOK(s.f, s.call, s.call.Args[pi], depth+1); !ok {
						return false, why
					}
				}
				return true, ""
			}
			if rhs, _, cnt := singleDef(info, f.Body, o); cnt == 1 && rhs != nil {
				if mk, isC := ast.Unparen(rhs).(*ast.CallExpr); isC && core.CalleeName(info, mk) == "builtin.make" && len(mk.Args) >= 2 {
					for _, a := range mk.Args[1:] {
						if v, isV := core.ConstInt(info, a); isV && v >= 4 {
							return true, ""
						}
					}
					return false, "make with a length that is not a constant >= 4 (" + core.ExprString(mk.Args[1]) + ")"
				}
			}
			return false, "cannot bound the capacity of " + x.Name
		case *ast.CallExpr:
			if core.CalleeName(info, x) == "bytes.Buffer.Bytes" {
				buf := ast.Unparen(x.Fun).(*ast.SelectorExpr).X
				bid, isId := ast.Unparen(buf).(*ast.Ident)
				if !isId {
					return false, "buffer is not a local variable"
				}
				bo := info.Uses[bid]
				atLoc := g.Locate(at)
				why := "no io.Copy/io.CopyN/ReadFrom into the buffer dominates the sniff"
				for _, h := range g.FindCalls("io.Copy", "io.CopyN", "bytes.Buffer.ReadFrom") {
					call := h.Node.(*ast.CallExpr)
					nm := core.CalleeName(info, call)
					var dst, src ast.Expr
					if nm == "bytes.Buffer.ReadFrom" {
						dst, src = ast.Unparen(call.Fun).(*ast.SelectorExpr).X, call.Args[0]
					} else {
						dst, src = call.Args[0], call.Args[1]
					}
					if !core.UsesObj(info, dst, bo) || !g.Dominates(h.Loc, atLoc) {
						continue
					}
					if nm != "io.Copy" {
						return true, "" // CopyN wraps the source in a LimitedReader; ReadFrom is direct
					}
					ok, w := srcOK(f, src, depth)
					if ok {
						return true, ""
					}
					why = w
				}
				return false, why
			}
		}
		return false, "argument shape not recognised: " + core.ExprString(e)
	}
	n := 0
	for _, s := range callSites(dct) {
		n++
		ok, why := capOK(s.f, s.call, s.call.Args[0], 0)
		c.Check(rule, s.f.Key()+" sniff-argument#"+itoa(n), c.Pos(s.call), ok, "DetectContentType slices b[:4]: "+why)
	}
	c.Expect(rule, "call sites of ggml.DetectContentType", n, 2)
}

func init() {
	p := registry["C10"]
	p.Pkgs = append(p.Pkgs, "convert")
	prev := p.Run
	p.Run = func(c *Ctx) { prev(c); extraC10Safetensors(c) }
}

// extraC10Safetensors is C10-R11: the safetensors reader of package convert (create from uploaded
// *.safetensors files runs it in the create goroutine) under the sink rules of R1.
func extraC10Safetensors(c *Ctx) {
	rule := "C10-R11"
	c.Rule(rule, "the safetensors reader sizes nothing by an unchecked number from the file: in convert.parseSafetensors the header length read with binary.Read reaches make only between 0 and a bound that is not file-derived, and elements of the JSON-decoded header (data_offsets) are indexed only behind a length test; in safetensor.WriteTo the offset and size fields (filled from the header) reach allocation sizes only behind a non-negativity test and an upper bound against the file's size (sources: variables whose address is given to binary.Read / json Decode / json.Unmarshal, everything derived from them whatever its type, and the offset/size fields of convert.safetensor)")
	fOff := c.P.LookupField("convert", "safetensor", "offset")
	fSize := c.P.LookupField("convert", "safetensor", "size")
	if fOff == nil || fSize == nil {
		c.Undecided(rule, "anchor:convert.safetensor.offset/size", "-", "anchor lost")
		return
	}
	extra := func(info *types.Info, e ast.Expr) (string, bool) {
		if se, ok := ast.Unparen(e).(*ast.SelectorExpr); ok {
			if fv := core.FieldVar(info, se); fv != nil && (fv == fOff || fv == fSize) {
				return "safetensors header (" + fv.Name() + ")", true
			}
		}
		return "", false
	}
	nS, nSeeds := 0, 0
	for _, name := range []string{"parseSafetensors", "safetensor.WriteTo"} {
		f := c.Fn(rule, "convert", name)
		if f == nil {
			continue
		}
		info := f.Info()
		seeds := map[types.Object]string{}
		for _, call := range core.Calls(f.Body, true) {
			nm := core.CalleeName(info, call)
			var target ast.Expr
			switch nm {
			case "encoding/binary.Read":
				if len(call.Args) == 3 {
					target = call.Args[2]
				}
			case "encoding/json.Decoder.Decode":
				target = call.Args[0]
			case "encoding/json.Unmarshal":
				target = call.Args[1]
			}
			if u, ok := ast.Unparen(target).(*ast.UnaryExpr); ok && u.Op == token.AND {
				if id, isId := ast.Unparen(u.X).(*ast.Ident); isId {
					if o := info.Uses[id]; o != nil {
						seeds[o] = "read from the file by " + nm
						nSeeds++
					}
				}
			}
		}
		tc := newTaintCtxOpts(c, f, seeds, true, extra)
		reports := tc.sinks()
		sort.Slice(reports, func(a, b int) bool { return reports[a].node.Pos() < reports[b].node.Pos() })
		seq := map[string]int{}
		for _, r := range reports {
			nS++
			k := r.kind + ":" + tc.stableExpr(r.what, r.node)
			seq[k]++
			key := f.Key() + " " + k
			if seq[k] > 1 {
				key += "#" + itoa(seq[k])
			}
			c.Check(rule, key, c.Pos(r.node), r.ok, "file-controlled value ("+r.why+") reaches "+r.kind+" `"+r.what+"` without "+r.need)
		}
	}
	c.Expect(rule, "variables filled from the file in parseSafetensors", nSeeds, 2)
	c.Expect(rule, "sink uses of file-controlled values in the safetensors reader", nS, 6)
}

func init() {
	prev := registry["C10"].Run
	registry["C10"].Run = func(c *Ctx) { prev(c); extraC10ConvertConfig(c) }
}

// extraC10ConvertConfig is C10-R12: numbers taken from an uploaded config.json (every integer field
// with a json tag of a struct of package convert) under the sink rules of R1, in all of package convert.
func extraC10ConvertConfig(c *Ctx) {
	rule := "C10-R12"
	c.Rule(rule, "the converters do not divide by, index with or size anything by an unchecked number from the uploaded config.json: in package convert every integer struct field that carries a json tag is file-controlled (the converter structs are filled by json.Unmarshal from the upload), and such a value reaches a divisor only behind a non-zero test, an allocation size or index only behind bounds (the conversion runs in the create goroutine: a missing num_attention_heads must produce an error or a skipped key, not an integer divide by zero that ends the server)")
	pkg := c.P.Pkgs["convert"]
	if pkg == nil {
		c.Undecided(rule, "anchor:pkg:convert", "-", "package not loaded")
		return
	}
	// fields with a json tag
	tagged := map[*types.Var]bool{}
	for _, nm := range pkg.Types.Scope().Names() {
		tn, ok := pkg.Types.Scope().Lookup(nm).(*types.TypeName)
		if !ok {
			continue
		}
		var walk func(t types.Type, depth int)
		walk = func(t types.Type, depth int) {
			st, isS := t.Underlying().(*types.Struct)
			if !isS || depth > 3 {
				return
			}
			for i := 0; i < st.NumFields(); i++ {
				f := st.Field(i)
				if strings.Contains(st.Tag(i), "json:") {
					tagged[f] = true
				}
				walk(f.Type(), depth+1)
			}
		}
		walk(tn.Type(), 0)
	}
	extra := func(info *types.Info, e ast.Expr) (string, bool) {
		if se, ok := ast.Unparen(e).(*ast.SelectorExpr); ok {
			if fv := core.FieldVar(info, se); fv != nil && tagged[fv] && isIntType(fv.Type()) {
				return "config.json (" + fv.Name() + ")", true
			}
		}
		return "", false
	}
	nS, nF := 0, 0
	for _, top := range c.P.FuncsOf("convert") {
		if strings.HasSuffix(c.Pos(top.Body), "_test.go") {
			continue
		}
		nF++
		for _, f := range append([]*core.Func{top}, top.Lits()...) {
			tc := newTaintCtxOpts(c, f, nil, false, extra)
			reports := tc.sinks()
			sort.Slice(reports, func(a, b int) bool { return reports[a].node.Pos() < reports[b].node.Pos() })
			seq := map[string]int{}
			for _, r := range reports {
				if !strings.Contains(r.why, "config.json") {
					continue // other sources are R11's (safetensors) or R1's
				}
				nS++
				k := r.kind + ":" + tc.stableExpr(r.what, r.node)
				seq[k]++
				key := f.Key() + " " + k
				if seq[k] > 1 {
					key += "#" + itoa(seq[k])
				}
				c.Check(rule, key, c.Pos(r.node), r.ok, "value from config.json ("+r.why+") reaches "+r.kind+" `"+r.what+"` without "+r.need)
			}
		}
	}
	// loops whose trip count comes from config.json and whose body grows a slice: memory out of
	// proportion to the upload unless the count is bounded
	nL := 0
	for _, top := range c.P.FuncsOf("convert") {
		if strings.HasSuffix(c.Pos(top.Body), "_test.go") {
			continue
		}
		tc := newTaintCtxOpts(c, top, nil, false, extra)
		info := top.Info()
		seq := 0
		core.InspectShallow(top.Body, func(n ast.Node) bool {
			var body *ast.BlockStmt
			var cnt ast.Expr
			switch x := n.(type) {
			case *ast.RangeStmt:
				if isIntType(info.Types[x.X].Type) {
					body, cnt = x.Body, x.X
				}
			case *ast.ForStmt:
				if be, ok := x.Cond.(*ast.BinaryExpr); ok && (be.Op == token.LSS || be.Op == token.LEQ) {
					body, cnt = x.Body, be.Y
				}
			}
			if body == nil {
				return true
			}
			t, why := tc.taintOf(cnt)
			if !t || !strings.Contains(why, "config.json") {
				return true
			}
			grows := len(core.CallsTo(info, body, false, "builtin.append")) > 0 || len(core.CallsTo(info, body, false, "builtin.make")) > 0
			if !grows {
				return true
			}
			nL++
			seq++
			b := tc.boundsAt(cnt, tc.g.Locate(n))
			c.Check(rule, top.Key()+" growth-loop#"+itoa(seq), c.Pos(n), b.upper, "a loop that appends once per iteration runs "+core.ExprString(cnt)+" times, a number taken from config.json ("+why+") with no upper bound")
			return true
		})
	}
	c.Count(rule+" growth loops with a config.json trip count", nL)
	c.Expect(rule, "json-tagged fields of package convert", len(tagged), 50)
	c.Expect(rule, "functions of package convert analysed", nF, 60)
	c.Expect(rule, "sink uses of config.json values", nS, 5)
}

func init() {
	prev := registry["C10"].Run
	registry["C10"].Run = func(c *Ctx) { prev(c); extraC10ConstIndex(c) }
}

// extraC10ConstIndex is C10-R13: constant indexes and slice bounds in the code that runs outside gin's
// recovery (the goroutines package server starts) need a length fact.
func extraC10ConstIndex(c *Ctx) {
	rule := "C10-R13"
	c.Rule(rule, "in the functions of package server that run in goroutines the package starts itself (no recovery middleware: a panic ends the server), a list of decoded layers or a value of a fs/ggml type is indexed or sliced with a constant bound only behind a dominating length test of that very expression — a decoder that stops at a bare EOF (a file cut exactly between two fields) hands the create path an empty layer list, and layers[:1] on it takes the whole server down")
	sinfo := c.P.Pkgs["server"].TypesInfo
	units := unrecoveredServerFuncs(c)
	audited := map[string]string{}
	n, bad, nOther := 0, 0, 0
	for _, f := range units {
		g := c.G(f)
		seq := map[string]int{}
		for _, h := range g.Find(func(m ast.Node) bool {
			switch x := m.(type) {
			case *ast.IndexExpr:
				if _, isC := core.ConstInt(sinfo, x.Index); !isC {
					return false
				}
				t := sinfo.TypeOf(x.X)
				if t == nil {
					return false
				}
				switch t.Underlying().(type) {
				case *types.Slice:
					return true
				case *types.Basic:
					return isStringType(t)
				}
				return false
			case *ast.SliceExpr:
				for _, b := range []ast.Expr{x.Low, x.High} {
					if b != nil {
						if v, isC := core.ConstInt(sinfo, b); isC && v > 0 {
							t := sinfo.TypeOf(x.X)
							if _, isArr := t.Underlying().(*types.Array); isArr {
								return false
							}
							if p, isP := t.Underlying().(*types.Pointer); isP {
								if _, isArr := p.Elem().Underlying().(*types.Array); isArr {
									return false
								}
							}
							return true
						}
					}
				}
			}
			return false
		}) {
			var x ast.Expr
			need := int64(0)
			switch e := h.Node.(type) {
			case *ast.IndexExpr:
				x = e.X
				v, _ := core.ConstInt(sinfo, e.Index)
				need = v + 1
			case *ast.SliceExpr:
				x = e.X
				for _, b := range []ast.Expr{e.Low, e.High} {
					if b != nil {
						if v, isC := core.ConstInt(sinfo, b); isC && v > need {
							need = v
						}
					}
				}
			}
			// only values that come out of decoding a model file: slices of layers / ggml values
			if ts := sinfo.TypeOf(x).String(); !strings.Contains(ts, "layerGGML") && !strings.Contains(ts, "fs/ggml.") {
				nOther++
				continue
			}
			n++
			xs := core.ExprString(x)
			ok := false
			for _, a := range g.AtomsAt(h.Loc) {
				be, isB := ast.Unparen(a.Expr).(*ast.BinaryExpr)
				if !isB {
					continue
				}
				call, isC := ast.Unparen(be.X).(*ast.CallExpr)
				if !isC || core.CalleeName(sinfo, call) != "builtin.len" || core.ExprString(call.Args[0]) != xs {
					continue
				}
				v, isV := core.ConstInt(sinfo, be.Y)
				if !isV {
					continue
				}
				op := be.Op
				if !a.Val {
					op = negateCmp(op)
				}
				if (op == token.GTR && v >= need-1) || (op == token.GEQ && v >= need) || (op == token.EQL && v >= need) || (op == token.NEQ && v == 0 && need == 1) {
					ok = true
				}
			}
			// strings.Split / SplitN / Fields results and literals are not examined: only local facts count
			key := f.Key() + " const-bound:" + normCell(xs)
			seq[key]++
			if seq[key] > 1 {
				key += "#" + itoa(seq[key])
			}
			if why, isA := audited[key]; isA && !ok {
				c.OK(rule, key+" (audited)", c.Pos(h.Node), why)
				continue
			}
			if !ok {
				bad++
			}
			c.Check(rule, key, c.Pos(h.Node), ok, "constant bound "+itoa(int(need))+" on "+xs+" without a length fact on the path")
		}
	}
	_ = bad
	c.Expect(rule, "functions of package server outside the recovery middleware", len(units), 60)
	c.Expect(rule, "constant-bound index/slice sites examined there (all operand types)", n+nOther, 20)
	c.Count(rule+" constant-bound sites on decoded layers / ggml values", n)
	if c.P.LookupField("server", "layerGGML", "GGML") == nil {
		c.Undecided(rule, "anchor:server.layerGGML", "-", "anchor lost: the type of decoded layers")
	}
	if n == 0 {
		c.OK(rule, "decoded layers are never indexed or sliced with a constant bound", "-", "")
	}
}

// unrecoveredServerFuncs: functions of package server reachable from its own go statements (top-level
// functions with their literals, and go-literals with the literals nested in them).
func unrecoveredServerFuncs(c *Ctx) []*core.Func {
	sinfo := c.P.Pkgs["server"].TypesInfo
	sfns := c.P.FuncsOf("server")
	byName := map[string]*core.Func{}
	for _, f := range sfns {
		if f.Obj != nil {
			byName[f.Obj.FullName()] = f
		}
	}
	seen := map[string]bool{}
	var out, work []*core.Func
	add := func(f *core.Func, withLits bool) {
		if f == nil || seen[f.Key()] || strings.HasSuffix(c.Pos(f.Body), "_test.go") {
			return
		}
		seen[f.Key()] = true
		out = append(out, f)
		work = append(work, f)
		if withLits {
			for _, l := range f.Lits() {
				if !seen[l.Key()] {
					seen[l.Key()] = true
					out = append(out, l)
				}
			}
		}
	}
	for _, f := range sfns {
		if strings.HasSuffix(c.Pos(f.Body), "_test.go") {
			continue
		}
		ast.Inspect(f.Body, func(n ast.Node) bool {
			gs, isGo := n.(*ast.GoStmt)
			if !isGo {
				return true
			}
			if lit, isLit := ast.Unparen(gs.Call.Fun).(*ast.FuncLit); isLit {
				for _, l := range f.Lits() {
					if l.Lit == lit {
						add(l, false)
						for _, l2 := range f.Lits() {
							if l2 != l && l2.Lit.Pos() >= lit.Pos() && l2.Lit.End() <= lit.End() && !seen[l2.Key()] {
								seen[l2.Key()] = true
								out = append(out, l2)
							}
						}
					}
				}
			} else if fo, ok := core.Callee(sinfo, gs.Call).(*types.Func); ok {
				add(byName[fo.FullName()], true)
			}
			return true
		})
	}
	for len(work) > 0 {
		f := work[0]
		work = work[1:]
		for _, call := range core.Calls(f.Body, true) {
			if fo, ok := core.Callee(sinfo, call).(*types.Func); ok {
				add(byName[fo.FullName()], true)
			}
		}
	}
	return out
}

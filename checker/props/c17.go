package props

import (
	"go/ast"
	"go/token"
	"go/types"
	"sort"
	"strings"

	"verifcheck/core"
)

func init() {
	register(&Prop{ID: "C17", Pkgs: []string{"server", "openai", "api"}, Run: runC17})
}

// isErrorObj: a composite literal gin.H{"error": ...}.
func isErrorObj(info *types.Info, e ast.Expr) bool {
	cl, ok := ast.Unparen(e).(*ast.CompositeLit)
	if !ok {
		return false
	}
	for _, el := range cl.Elts {
		if kv, ok := el.(*ast.KeyValueExpr); ok {
			if s, isS := core.ConstString(info, kv.Key); isS && s == "error" {
				return true
			}
		}
	}
	return false
}

// fieldsRead collects the field names selected (transitively through in-package callees
// that receive the value or a part of it) on variable v.
func fieldsRead(c *Ctx, rel string, f *core.Func, v types.Object, depth int, out map[string]bool) {
	info := f.Info()
	ast.Inspect(f.Body, func(n ast.Node) bool {
		switch x := n.(type) {
		case *ast.SelectorExpr:
			if p := core.PathOf(info, x); p.Valid() && p.Root == v {
				name := ""
				for _, fl := range p.Fields {
					if name != "" {
						name += "."
					}
					name += fl.Name()
				}
				out[name] = true
			}
		case *ast.CallExpr:
			if depth <= 0 {
				return true
			}
			fn, ok := core.Callee(info, x).(*types.Func)
			if !ok || fn.Pkg() == nil || core.RelPkg(fn.Pkg().Path()) != rel {
				return true
			}
			callee := c.P.LookupFunc(rel, fn.Name())
			if callee == nil {
				return true
			}
			i := 0
			for _, fl := range callee.Type.Params.List {
				for _, nm := range fl.Names {
					if i < len(x.Args) {
						if p := core.PathOf(info, x.Args[i]); p.Valid() && p.Root == v {
							sub := map[string]bool{}
							fieldsRead(c, rel, callee, callee.Info().Defs[nm], depth-1, sub)
							prefix := ""
							for _, fl2 := range p.Fields {
								prefix += fl2.Name() + "."
							}
							if len(sub) == 0 && prefix != "" {
								out[strings.TrimSuffix(prefix, ".")] = true
							}
							for k := range sub {
								out[prefix+k] = true
							}
						}
					}
					i++
				}
			}
		}
		return true
	})
}

func runC17(c *Ctx) {
	sinfo := c.P.Pkgs["server"].TypesInfo

	// ------------------------------------------------------------------ R1
	c.Rule("C17-R1", "one terminal event: the producer goroutines of GenerateHandler and ChatHandler close their channel by a deferred close; the completion callback sends exactly one object on every path of a done chunk and at most one on a non-final chunk (path counting, path-sensitive on the Done flag), and after an error object the callback returns (a send guarded by the error of an infallible call — strings.Builder.WriteString — is dead and ignored); outside the callback an error object is sent only on the non-nil edge of Completion; the non-stream consumer returns on the first error object; tool calls are parsed from the accumulated text on every chunk, under conditions on the request only (never on the content of the current chunk)")
	for _, hname := range []string{"Server.GenerateHandler", "Server.ChatHandler"} {
		f := c.Fn("C17-R1", "server", hname)
		if f == nil {
			continue
		}
		// producer: the go-literal that calls Completion
		var prod *core.Func
		for _, l := range f.Lits() {
			if u := core.UseOfLit(sinfo, f.Body, l.Lit); u.Kind == "go" && len(core.CallsTo(sinfo, l.Body, false, "llm.LlamaServer.Completion")) == 1 {
				prod = l
			}
		}
		if prod == nil {
			c.Undecided("C17-R1", "anchor:producer goroutine of "+hname, "-", "anchor lost")
			continue
		}
		// deferred close of the channel it sends on
		okClose := false
		for _, st := range prod.Body.List {
			if d, ok := st.(*ast.DeferStmt); ok && core.CalleeName(sinfo, d.Call) == "builtin.close" {
				okClose = true
			}
		}
		c.Check("C17-R1", prod.Key()+" defer close(ch)", c.Pos(prod.Lit), okClose, "the producer must close its channel by defer so that the consumer always terminates")
		pg := c.G(prod)
		comp := pg.FindCalls("llm.LlamaServer.Completion")
		// sends in the producer body itself (outside the callback)
		for _, h := range pg.Find(func(n ast.Node) bool { _, ok := n.(*ast.SendStmt); return ok }) {
			ss := h.Node.(*ast.SendStmt)
			if !isErrorObj(sinfo, ss.Value) {
				c.Check("C17-R1", prod.Key()+" producer sends only errors outside the callback", c.Pos(ss), false, "a response object sent outside the completion callback breaks 'exactly one final message'")
				continue
			}
			ok := false
			for _, cm := range comp {
				if reach, checked := pg.FailureReaches(cm, h.Loc); checked && reach {
					if s, _ := pg.OnSuccessOf(cm, h.Loc); !s {
						ok = true
					}
				}
			}
			c.Check("C17-R1", prod.Key()+" error after Completion only when it failed", c.Pos(ss), ok, "an error object may follow Completion only on its non-nil edge")
		}
		// the callback
		var cb *core.Func
		for _, l := range prod.Lits() {
			if u := core.UseOfLit(sinfo, prod.Body, l.Lit); u.Kind == "arg" && u.Callee == "llm.LlamaServer.Completion" {
				cb = l
			}
		}
		if cb == nil {
			c.Undecided("C17-R1", "anchor:completion callback of "+hname, "-", "anchor lost")
			continue
		}
		cg := c.G(cb)
		dead := func(l core.Loc) bool {
			// guarded by `err != nil` of an infallible call
			for _, a := range cg.AtomsAt(l) {
				if x, eq, isNil := core.IsNilCheck(sinfo, a.Expr); isNil && eq != a.Val {
					if id, ok := ast.Unparen(x).(*ast.Ident); ok {
						for _, as := range cg.AssignsTo(sinfo.Uses[id]) {
							if len(core.CallsTo(sinfo, as.Node, false, "strings.Builder.WriteString")) == 1 {
								return true
							}
						}
					}
				}
			}
			return false
		}
		var doneVar types.Object
		if len(cb.Type.Params.List) == 1 && len(cb.Type.Params.List[0].Names) == 1 {
			doneVar = sinfo.Defs[cb.Type.Params.List[0].Names[0]]
		}
		sendsAt := func(n ast.Node, l core.Loc) int {
			if ss, ok := n.(*ast.SendStmt); ok && !dead(l) {
				_ = ss
				return 1
			}
			return 0
		}
		// count sends per path, path-sensitive on the callback argument's Done flag
		locOf := map[ast.Node]core.Loc{}
		cg.AllLocs(func(n ast.Node, l core.Loc) { locOf[n] = l })
		isDone := func(e ast.Expr) (neg bool, ok bool) {
			e = ast.Unparen(e)
			if u, isU := e.(*ast.UnaryExpr); isU && u.Op == token.NOT {
				e = ast.Unparen(u.X)
				neg = true
			}
			se, isSel := e.(*ast.SelectorExpr)
			return neg, isSel && se.Sel.Name == "Done" && doneVar != nil && core.UsesObj(sinfo, se.X, doneVar)
		}
		for _, assume := range []bool{true, false} {
			_, exits := cg.CountPathsEdges(cg.Entry(), func(n ast.Node) int { return sendsAt(n, locOf[n]) }, nil, nil, func(cond ast.Expr, takenTrue bool) bool {
				if neg, ok := isDone(cond); ok {
					return takenTrue == (assume != neg)
				}
				return true
			})
			var all uint8
			for _, m := range exits {
				all |= m
			}
			if assume {
				c.Check("C17-R1", cb.Key()+" a done chunk produces exactly one object", c.Pos(cb.Lit), all == 2, "possible send counts over all paths with Done = true (bit0=0, bit1=1, bit2=2+): "+itoa(int(all)))
			} else {
				c.Check("C17-R1", cb.Key()+" a non-final chunk produces at most one object", c.Pos(cb.Lit), all&4 == 0 && all != 0, "possible send counts over all paths with Done = false: "+itoa(int(all)))
			}
		}
		// after an error object the callback returns without another send
		for _, h := range cg.Find(func(n ast.Node) bool { s, ok := n.(*ast.SendStmt); return ok && isErrorObj(sinfo, s.Value) }) {
			if dead(h.Loc) {
				c.OK("C17-R1", cb.Key()+" error send guarded by an infallible call (dead)", c.Pos(h.Node), "strings.Builder.WriteString never fails")
				continue
			}
			more := false
			cg.Walk(h.Loc, func(n ast.Node, l core.Loc) bool {
				if _, ok := n.(*ast.SendStmt); ok && !dead(l) {
					more = true
				}
				return more
			})
			c.Check("C17-R1", cb.Key()+" nothing is sent after an error object", c.Pos(h.Node), !more, "a message after the error breaks 'exactly one final message or one error'")
		}
		// tool-call parsing conditions
		for _, h := range cg.FindCalls("server.Model.parseToolCalls") {
			bad := ""
			// a variable is harmless when it is the request, or a local of the handler assigned once from
			// request fields and constants only (streaming := req.Stream == nil || *req.Stream)
			var requestOnly func(e ast.Node, depth int) bool
			requestOnly = func(e ast.Node, depth int) bool {
				okAll := true
				ast.Inspect(e, func(n ast.Node) bool {
					id, ok := n.(*ast.Ident)
					if !ok {
						return true
					}
					v, isVar := sinfo.Uses[id].(*types.Var)
					if !isVar || v.IsField() || strings.HasSuffix(core.ObjNameOfType(v.Type()), "Request") {
						return true
					}
					if depth < 2 {
						if rhs, _, cnt := singleDef(sinfo, f.Body, v); cnt == 1 && rhs != nil && requestOnly(rhs, depth+1) {
							return true
						}
					}
					okAll = false
					return false
				})
				return okAll
			}
			for _, fct := range cg.Facts(h.Loc) {
				if !requestOnly(fct.Expr, 0) {
					bad = core.ExprString(fct.Expr)
				}
			}
			call := h.Node.(*ast.CallExpr)
			acc := false
			for _, x := range expand(cg, call.Args[0], 2) { // directly or through a local (`buffered := sb.String()`)
				if len(core.CallsTo(sinfo, x, false, "strings.Builder.String")) == 1 {
					acc = true
				}
			}
			c.Check("C17-R1", cb.Key()+" tool calls parsed from the accumulated text on every chunk", c.Pos(call), bad == "" && acc, "parseToolCalls is conditioned on "+bad+": the streamed and the non-streamed result differ for outputs split differently")
		}
		// non-stream consumer
		g := c.G(f)
		nLoops := 0
		for _, rl := range rangeLoops(f) {
			if t := sinfo.Types[rl.Stmt.X].Type; t == nil {
				continue
			} else if _, isChan := t.Underlying().(*types.Chan); !isChan {
				continue
			}
			nLoops++
			okErr, okText, okLast := false, false, false
			var acc types.Object
			ast.Inspect(rl.Stmt.Body, func(n ast.Node) bool {
				cc, ok := n.(*ast.CaseClause)
				if !ok || len(cc.List) != 1 {
					return true
				}
				tn := core.ExprString(cc.List[0])
				switch {
				case tn == "gin.H":
					for _, st := range cc.Body {
						if _, isRet := st.(*ast.ReturnStmt); isRet {
							okErr = true
						}
					}
				case strings.HasPrefix(tn, "api."):
					for _, st := range cc.Body {
						if es, isE := st.(*ast.ExprStmt); isE {
							if call, isC := es.X.(*ast.CallExpr); isC && core.CalleeName(sinfo, call) == "strings.Builder.WriteString" {
								okText = true
								if p := core.PathOf(sinfo, call.Fun.(*ast.SelectorExpr).X); p.Valid() {
									acc = p.Root
								}
							}
						}
						if as, isA := st.(*ast.AssignStmt); isA && len(as.Lhs) == 1 && as.Tok == token.ASSIGN {
							if _, isID := as.Lhs[0].(*ast.Ident); isID {
								okLast = true
							}
						}
					}
				}
				return true
			})
			// after the loop: text = acc.String()
			okAssign := false
			if acc != nil {
				for _, h := range g.FindCalls("strings.Builder.String") {
					call := h.Node.(*ast.CallExpr)
					if core.UsesObj(sinfo, call.Fun, acc) && g.Dominates(g.Locate(rl.Stmt.X), h.Loc) && !within(rl.Stmt, call) {
						okAssign = true
					}
				}
			}
			c.Check("C17-R3", f.Key()+" non-stream aggregation", c.Pos(rl.Stmt), okErr && okText && okLast && okAssign, "the non-stream branch must concatenate every chunk's text, keep the last chunk, return on the first error object and put the concatenation into the response")
		}
		c.Expect("C17-R3", "non-stream consumer loops in "+hname, nLoops, 1)
	}
	c.Rule("C17-R3", "aggregation siblings: the non-stream branches of GenerateHandler and ChatHandler both concatenate every chunk's text, keep the last chunk's metadata, return on the first error object and store the concatenation")

	// ------------------------------------------------------------------ R2
	c.Rule("C17-R2", "OpenAI translator pairs read the same result fields: chat — toChatCompletion vs toChunk ∪ usage; generate — toCompletion vs toCompleteChunk ∪ usage; each side reads text, tool calls (chat), finish reason, prompt and completion token counts")
	pairs := []struct {
		full, chunk, usage string
		must               []string
	}{
		{"toChatCompletion", "toChunk", "toUsage", []string{"Message.Content", "Message.ToolCalls", "DoneReason", "PromptEvalCount", "EvalCount"}},
		{"toCompletion", "toCompleteChunk", "toUsageGenerate", []string{"Response", "DoneReason", "PromptEvalCount", "EvalCount"}},
	}
	for _, p := range pairs {
		read := func(name string) map[string]bool {
			out := map[string]bool{}
			f := c.Fn("C17-R2", "openai", name)
			if f == nil {
				return out
			}
			if v := paramByType(f, func(t types.Type) bool {
				n := core.ObjNameOfType(t)
				return n == "api.ChatResponse" || n == "api.GenerateResponse"
			}); v != nil {
				fieldsRead(c, "openai", f, v, 2, out)
			}
			return out
		}
		a := read(p.full)
		b := read(p.chunk)
		for k := range read(p.usage) {
			b[k] = true
		}
		for _, m := range p.must {
			c.Check("C17-R2", "openai."+p.full+" reads "+m, "-", hasPrefixKey(a, m), "non-stream translator does not carry "+m+"; reads "+keysOf(a))
			c.Check("C17-R2", "openai."+p.chunk+"+"+p.usage+" read "+m, "-", hasPrefixKey(b, m), "stream translator (chunks + usage) does not carry "+m+"; reads "+keysOf(b))
		}
	}
	// the usage branch is actually used by the stream writers on the done chunk
	for _, w := range []struct{ fn, usage string }{{"ChatWriter.writeResponse", "openai.toUsage"}, {"CompleteWriter.writeResponse", "openai.toUsageGenerate"}} {
		if f := c.Fn("C17-R2", "openai", w.fn); f != nil {
			oinfo := f.Info()
			g := c.G(f)
			ok := false
			for _, h := range g.FindCalls(w.usage) {
				for _, a := range g.AtomsAt(h.Loc) {
					if se, isSel := ast.Unparen(a.Expr).(*ast.SelectorExpr); isSel && se.Sel.Name == "Done" && a.Val {
						ok = true
					}
				}
				_ = oinfo
			}
			// [DONE] terminator on the done edge
			okDone := false
			// the terminator: a literal or constant containing "[DONE]", here or in a package helper called here
			hasDone := func(inf *types.Info, n ast.Node) bool {
				if bl, isB := n.(*ast.BasicLit); isB && strings.Contains(bl.Value, "[DONE]") {
					return true
				}
				if id, isId := n.(*ast.Ident); isId {
					if sv, isS := core.ConstString(inf, id); isS && strings.Contains(sv, "[DONE]") {
						return true
					}
				}
				return false
			}
			ast.Inspect(f.Body, func(n ast.Node) bool {
				found := n != nil && hasDone(oinfo, n)
				if call, isC := n.(*ast.CallExpr); isC && !found {
					if fo, _ := core.Callee(oinfo, call).(*types.Func); fo != nil {
						for _, hf := range c.P.FuncsOf("openai") {
							if hf.Obj != nil && hf.Obj.FullName() == fo.FullName() {
								ast.Inspect(hf.Body, func(m ast.Node) bool {
									if m != nil && hasDone(hf.Info(), m) {
										found = true
									}
									return !found
								})
							}
						}
					}
				}
				if found {
					for _, a := range g.AtomsAt(g.Locate(n)) {
						if se, isSel := ast.Unparen(a.Expr).(*ast.SelectorExpr); isSel && se.Sel.Name == "Done" && a.Val {
							okDone = true
						}
					}
				}
				return true
			})
			c.Check("C17-R2", "openai."+w.fn+" usage and [DONE] on the final chunk", c.Pos(f.Decl), ok && okDone, "the stream writer must emit usage (when requested) and the [DONE] terminator exactly on the done chunk")
		}
	}

	// ------------------------------------------------------------------ R4
	c.Rule("C17-R4", "the client surfaces stream errors: api.Client.stream consults scanner.Err() after its scan loop (a stream cut mid-way or an over-long line ends with an error), enlarges the scanner buffer before scanning, and returns on the first error object or callback error")
	if f := c.Fn("C17-R4", "api", "Client.stream"); f != nil {
		ainfo := f.Info()
		g := c.G(f)
		scans := g.FindCalls("bufio.Scanner.Scan")
		errs := g.FindCalls("bufio.Scanner.Err")
		bufs := g.FindCalls("bufio.Scanner.Buffer")
		c.Expect("C17-R4", "scan loops in Client.stream", len(scans), 1)
		if len(scans) == 1 {
			// every return reachable on the Scan()==false edge consults scanner.Err()
			var scanFalse core.Loc
			for _, cb := range g.CondBlocks() {
				if call, ok := ast.Unparen(cb.Cond).(*ast.CallExpr); ok && core.CalleeName(ainfo, call) == "bufio.Scanner.Scan" {
					scanFalse = core.StartOf(cb.B.Succs[1])
				}
			}
			okErr := scanFalse.Valid()
			if okErr {
				bad := g.MustPass(scanFalse, func(n ast.Node, l core.Loc) bool { return g.NodeCalls(n, "bufio.Scanner.Err") != nil }, nil)
				okErr = len(bad) == 0
			}
			c.Check("C17-R4", f.Key()+" scanner.Err() consulted after the loop", c.Pos(f.Decl), okErr && len(errs) >= 1, "after Scan() returns false the function must return/check scanner.Err(); otherwise a cut stream yields neither a final message nor an error")
			okBuf := false
			for _, b := range bufs {
				if g.Dominates(b.Loc, scans[0].Loc) {
					call := b.Node.(*ast.CallExpr)
					if v, isC := core.ConstInt(ainfo, call.Args[1]); isC && v >= 512*1000 {
						okBuf = true
					}
				}
			}
			c.Check("C17-R4", f.Key()+" scanner buffer enlarged before scanning", c.Pos(f.Decl), okBuf, "the default 64 KiB token limit truncates long non-streamed responses (bufio.ErrTooLong)")
		}
		// error object and callback error end the stream
		nRet := 0
		for _, ex := range g.Returns() {
			for _, a := range g.AtomsAt(ex.Loc) {
				if !a.Val {
					continue
				}
				isErrEdge := false
				if x, eq, isNil := core.IsNilCheck(ainfo, a.Expr); isNil && !eq {
					if t := ainfo.TypeOf(x); t != nil && t.String() == "error" {
						isErrEdge = true
					}
				}
				if be, isB := ast.Unparen(a.Expr).(*ast.BinaryExpr); isB && be.Op == token.NEQ && selName(be.X) == "Error" {
					if v, isS := core.ConstString(ainfo, be.Y); isS && v == "" {
						isErrEdge = true // the server's error object
					}
				}
				if isErrEdge {
					nRet++
					break
				}
			}
		}
		c.Check("C17-R4", f.Key()+" first error ends the stream", c.Pos(f.Decl), nRet >= 5, "returns on error edges: "+itoa(nRet))
	}
}

func hasPrefixKey(m map[string]bool, k string) bool {
	for x := range m {
		// embedded structs (api.Metrics) show up as a prefix of the promoted field
		if x == k || strings.HasPrefix(x, k+".") || strings.HasSuffix(x, "."+k) {
			return true
		}
	}
	return false
}

func keysOf(m map[string]bool) string {
	var ks []string
	for k := range m {
		ks = append(ks, k)
	}
	sort.Strings(ks)
	return strings.Join(ks, ",")
}

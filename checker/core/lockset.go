package core

import (
	"go/ast"
	"go/types"
	"sort"

	cfg "verifcheck/cfgx"
)

// Lock is a held mutex: the access path it was taken on and the mutex field (class).
type Lock struct {
	Path  Path
	Class *types.Var // mutex field object; nil for a plain mutex variable
}

func (l Lock) Key() string { return l.Path.Key() }

// ClassName renders the lock class ("runnerRef.refMu").
func (l Lock) ClassName() string {
	if l.Class != nil {
		return fieldOwnerName(l.Class) + "." + l.Class.Name()
	}
	if l.Path.Root != nil {
		return l.Path.Root.Name()
	}
	return "?"
}

func fieldOwnerName(f *types.Var) string {
	if f.Pkg() == nil {
		return ""
	}
	sc := f.Pkg().Scope()
	for _, n := range sc.Names() {
		tn, ok := sc.Lookup(n).(*types.TypeName)
		if !ok {
			continue
		}
		st, ok := tn.Type().Underlying().(*types.Struct)
		if !ok {
			continue
		}
		for i := 0; i < st.NumFields(); i++ {
			if st.Field(i) == f {
				return n
			}
		}
	}
	return "?"
}

// LockSet is a must-held set keyed by path.
type LockSet map[string]Lock

func (s LockSet) clone() LockSet {
	o := LockSet{}
	for k, v := range s {
		o[k] = v
	}
	return o
}

func (s LockSet) HasPath(p Path) bool { _, ok := s[p.Key()]; return ok }

func (s LockSet) HasClass(c *types.Var) bool {
	for _, l := range s {
		if l.Class == c {
			return true
		}
	}
	return false
}

func (s LockSet) Names() []string {
	var out []string
	for _, l := range s {
		out = append(out, l.Path.String())
	}
	sort.Strings(out)
	return out
}

// lockOp classifies a call as Lock/Unlock on a sync mutex; returns the receiver path.
func lockOp(info *types.Info, call *ast.CallExpr) (op string, l Lock, ok bool) {
	se, isSel := ast.Unparen(call.Fun).(*ast.SelectorExpr)
	if !isSel {
		return "", Lock{}, false
	}
	switch CalleeName(info, call) {
	case "sync.Mutex.Lock", "sync.RWMutex.Lock", "sync.RWMutex.RLock", "p.Mutex.Lock":
		op = "lock"
	case "sync.Mutex.Unlock", "sync.RWMutex.Unlock", "sync.RWMutex.RUnlock", "p.Mutex.Unlock":
		op = "unlock"
	default:
		return "", Lock{}, false
	}
	p := PathOf(info, se.X)
	if !p.Valid() {
		return op, Lock{}, true // lock op on something we cannot name
	}
	return op, Lock{Path: p, Class: p.Last()}, true
}

// Acquire is one lock acquisition site with the set held just before it.
type Acquire struct {
	Loc  Loc
	Call *ast.CallExpr
	Lock Lock
	Held LockSet
}

// LockFlow is the result of the must-lockset dataflow on one graph.
type LockFlow struct {
	G        *Graph
	Before   map[Loc]LockSet // held before each node
	Acquires []Acquire
	Handoff  map[*ast.GoStmt][]Lock // locks handed to a goroutine at this statement
	Unnamed  []Loc                  // lock operations on unnameable receivers
}

// handoffLocks: locks that the literal started by `go` releases by a top-level defer
// before ever locking them (the Scheduler.load idiom).
func handoffLocks(info *types.Info, lit *ast.FuncLit) []Lock {
	var out []Lock
	locked := map[string]bool{}
	for _, st := range lit.Body.List {
		switch s := st.(type) {
		case *ast.DeferStmt:
			if op, l, ok := lockOp(info, s.Call); ok && op == "unlock" && l.Path.Valid() && !locked[l.Key()] {
				out = append(out, l)
			}
		default:
			InspectShallow(st, func(n ast.Node) bool {
				if c, ok := n.(*ast.CallExpr); ok {
					if op, l, ok := lockOp(info, c); ok && op == "lock" && l.Path.Valid() {
						locked[l.Key()] = true
					}
				}
				return true
			})
		}
	}
	return out
}

// ComputeLocks runs the forward must-analysis with the given entry set.
func ComputeLocks(g *Graph, entry LockSet) *LockFlow {
	lf := &LockFlow{G: g, Before: map[Loc]LockSet{}, Handoff: map[*ast.GoStmt][]Lock{}}
	info := g.Info
	in := map[*cfg.Block]LockSet{}
	if len(g.Blocks) == 0 {
		return lf
	}
	if entry == nil {
		entry = LockSet{}
	}
	in[g.Blocks[0]] = entry.clone()
	transfer := func(n ast.Node, loc Loc, s LockSet, record bool) LockSet {
		switch st := n.(type) {
		case *ast.DeferStmt:
			return s // deferred unlocks keep the lock to function exit
		case *ast.GoStmt:
			if lit, ok := ast.Unparen(st.Call.Fun).(*ast.FuncLit); ok {
				hs := handoffLocks(info, lit)
				var given []Lock
				for _, h := range hs {
					if s.HasPath(h.Path) {
						given = append(given, h)
					}
				}
				if len(given) > 0 {
					s = s.clone()
					for _, h := range given {
						delete(s, h.Key())
					}
					if record {
						lf.Handoff[st] = given
					}
				}
			}
			return s
		}
		out := s
		InspectShallow(n, func(x ast.Node) bool {
			switch y := x.(type) {
			case *ast.CallExpr:
				op, l, ok := lockOp(info, y)
				if !ok {
					return true
				}
				if !l.Path.Valid() {
					if record {
						lf.Unnamed = append(lf.Unnamed, loc)
					}
					return true
				}
				if op == "lock" {
					if record {
						lf.Acquires = append(lf.Acquires, Acquire{Loc: loc, Call: y, Lock: l, Held: out.clone()})
					}
					out = out.clone()
					out[l.Key()] = l
				} else {
					out = out.clone()
					delete(out, l.Key())
				}
			case *ast.AssignStmt:
				// assignment to the root of a held path invalidates it
				for _, lhs := range y.Lhs {
					if id, ok := ast.Unparen(lhs).(*ast.Ident); ok {
						o := info.Uses[id]
						if o == nil {
							o = info.Defs[id]
						}
						for k, l := range out {
							if l.Path.Root == o && o != nil {
								out = out.clone()
								delete(out, k)
							}
						}
					}
				}
			}
			return true
		})
		return out
	}
	meet := func(a, b LockSet) LockSet {
		o := LockSet{}
		for k, v := range a {
			if _, ok := b[k]; ok {
				o[k] = v
			}
		}
		return o
	}
	eq := func(a, b LockSet) bool {
		if len(a) != len(b) {
			return false
		}
		for k := range a {
			if _, ok := b[k]; !ok {
				return false
			}
		}
		return true
	}
	work := []*cfg.Block{g.Blocks[0]}
	for len(work) > 0 {
		b := work[len(work)-1]
		work = work[:len(work)-1]
		s := in[b]
		for i, n := range g.nodes[b] {
			s = transfer(n, Loc{b, i}, s, false)
		}
		for _, succ := range b.Succs {
			if !succ.Live {
				continue
			}
			old, seen := in[succ]
			var nw LockSet
			if !seen {
				nw = s.clone()
			} else {
				nw = meet(old, s)
			}
			if !seen || !eq(old, nw) {
				in[succ] = nw
				work = append(work, succ)
			}
		}
	}
	// final pass: record
	for _, b := range g.Blocks {
		s, ok := in[b]
		if !ok {
			s = LockSet{}
		}
		for i, n := range g.nodes[b] {
			lf.Before[Loc{b, i}] = s
			s = transfer(n, Loc{b, i}, s, true)
		}
		lf.Before[Loc{b, len(g.nodes[b])}] = s
	}
	return lf
}

// HeldAt returns the locks held when syntax node n (inside g) executes. Locks taken
// earlier inside the same CFG node are not counted.
func (lf *LockFlow) HeldAt(n ast.Node) LockSet {
	loc := lf.G.Locate(n)
	if !loc.Valid() {
		return LockSet{}
	}
	return lf.Before[loc]
}

// Translate maps a caller-side lockset to the callee's frame: a held path whose prefix
// equals the actual receiver/argument path becomes rooted at the callee's
// receiver/parameter object; other locks are kept class-only (path rooted at a synthetic
// key) so that singleton locks (Scheduler.loadedMu) still count by class.
func Translate(info *types.Info, held LockSet, call *ast.CallExpr, callee *Func) LockSet {
	out := LockSet{}
	type bind struct {
		actual Path
		formal types.Object
	}
	var binds []bind
	if callee.Decl != nil {
		if callee.Decl.Recv != nil && len(callee.Decl.Recv.List) == 1 && len(callee.Decl.Recv.List[0].Names) == 1 {
			if se, ok := ast.Unparen(call.Fun).(*ast.SelectorExpr); ok {
				if p := PathOf(info, se.X); p.Valid() {
					binds = append(binds, bind{p, callee.Info().Defs[callee.Decl.Recv.List[0].Names[0]]})
				}
			}
		}
	}
	i := 0
	for _, fl := range callee.Type.Params.List {
		for _, nm := range fl.Names {
			if i < len(call.Args) {
				if p := PathOf(info, call.Args[i]); p.Valid() {
					binds = append(binds, bind{p, callee.Info().Defs[nm]})
				}
			}
			i++
		}
	}
	for _, l := range held {
		done := false
		for _, b := range binds {
			if l.Path.Root == b.actual.Root && len(l.Path.Fields) >= len(b.actual.Fields) {
				match := true
				for k := range b.actual.Fields {
					if l.Path.Fields[k] != b.actual.Fields[k] {
						match = false
					}
				}
				if match && b.formal != nil {
					np := Path{Root: b.formal, Fields: l.Path.Fields[len(b.actual.Fields):]}
					out[np.Key()] = Lock{Path: np, Class: l.Class}
					done = true
					break
				}
			}
		}
		if !done {
			// class-only: keep under a key that cannot collide with a callee path
			out["class:"+l.ClassName()+"/"+l.Key()] = Lock{Path: l.Path, Class: l.Class}
		}
	}
	return out
}

// Clone copies the set.
func (s LockSet) Clone() LockSet { return s.clone() }

// Package core holds the property-agnostic machinery: loading the type-checked
// program from /repo, obligations/evidence/known-findings plumbing, and the
// analysis engines (CFG path rules, locksets, who-may-call, interval sets ...).
package core

import (
	"fmt"
	"go/ast"
	"go/constant"
	"go/token"
	"go/types"
	"golang.org/x/tools/go/ast/astutil"
	"os"
	"path/filepath"
	"sort"
	"strings"

	"golang.org/x/tools/go/packages"
)

const ModulePath = "github.com/ollama/ollama"

// RepoDir is the tree that is analysed. VERIF_REPO overrides it (used only by the
// self-test that runs the rules against scratch copies with a seeded change).
func RepoDir() string {
	if d := os.Getenv("VERIF_REPO"); d != "" {
		return d
	}
	return "/repo"
}

// Program is the loaded, type-checked part of the repository.
type Program struct {
	Fset  *token.FileSet
	Pkgs  map[string]*packages.Package // by import path relative to the module ("server", "fs/ggml", ...)
	All   []*packages.Package          // every package with syntax
	Whole bool                         // whole module loaded (thorough)
	Files int
	Funcs int
}

func goEnv() []string {
	env := []string{}
	for _, e := range os.Environ() {
		if strings.HasPrefix(e, "GOFLAGS=") || strings.HasPrefix(e, "GOPROXY=") || strings.HasPrefix(e, "GOWORK=") {
			continue
		}
		env = append(env, e)
	}
	return append(env, "GOFLAGS=-mod=mod", "GOPROXY=off", "GOWORK=off")
}

// Load type-checks the given packages (paths relative to the module root; "./..."
// for everything). Dependencies come from export data unless whole is set.
func Load(whole bool, rel ...string) (*Program, error) {
	mode := packages.NeedName | packages.NeedFiles | packages.NeedCompiledGoFiles | packages.NeedImports |
		packages.NeedTypes | packages.NeedTypesSizes | packages.NeedSyntax | packages.NeedTypesInfo
	pats := []string{}
	if whole {
		pats = []string{"./..."}
	} else {
		for _, r := range rel {
			pats = append(pats, "./"+r)
		}
	}
	cfg := &packages.Config{Mode: mode, Dir: RepoDir(), Env: goEnv(), Fset: token.NewFileSet()}
	pkgs, err := packages.Load(cfg, pats...)
	if err != nil {
		return nil, err
	}
	p := &Program{Fset: cfg.Fset, Pkgs: map[string]*packages.Package{}, Whole: whole}
	var errs []string
	for _, pkg := range pkgs {
		for _, e := range pkg.Errors {
			errs = append(errs, pkg.PkgPath+": "+e.Error())
		}
		if len(pkg.Syntax) == 0 {
			continue
		}
		r := strings.TrimPrefix(strings.TrimPrefix(pkg.PkgPath, ModulePath), "/")
		if r == "" {
			r = "."
		}
		p.Pkgs[r] = pkg
		p.All = append(p.All, pkg)
		p.Files += len(pkg.Syntax)
		for _, f := range pkg.Syntax {
			ast.Inspect(f, func(n ast.Node) bool {
				switch n.(type) {
				case *ast.FuncDecl, *ast.FuncLit:
					p.Funcs++
				}
				return true
			})
			canonicalise(pkg.TypesInfo, f)
		}
	}
	if len(errs) > 0 {
		sort.Strings(errs)
		if len(errs) > 10 {
			errs = errs[:10]
		}
		return nil, fmt.Errorf("load/type-check errors:\n  %s", strings.Join(errs, "\n  "))
	}
	if len(p.All) == 0 {
		return nil, fmt.Errorf("no packages loaded from %s (%v)", RepoDir(), pats)
	}
	sort.Slice(p.All, func(i, j int) bool { return p.All[i].PkgPath < p.All[j].PkgPath })
	return p, nil
}

// Pos renders a position relative to the repository root.
func (p *Program) Pos(pos token.Pos) string {
	if !pos.IsValid() {
		return "-"
	}
	ps := p.Fset.Position(pos)
	f := ps.Filename
	if r, err := filepath.Rel(RepoDir(), f); err == nil && !strings.HasPrefix(r, "..") {
		f = r
	}
	return fmt.Sprintf("%s:%d", f, ps.Line)
}

// Func is a function or method declaration (or a function literal) with its package.
type Func struct {
	Pkg  *packages.Package
	Decl *ast.FuncDecl // nil for literals
	Lit  *ast.FuncLit  // nil for declarations
	Obj  *types.Func   // nil for literals
	Name string        // "Recv.Method", "Func", or "Outer#lit1"
	Body *ast.BlockStmt
	Type *ast.FuncType
	// Parent is the declaration a literal is nested in.
	Parent *Func
}

func (f *Func) Info() *types.Info { return f.Pkg.TypesInfo }

// Key is the stable construct name: "<relpkg>.<Name>".
func (f *Func) Key() string { return RelPkg(f.Pkg.PkgPath) + "." + f.Name }

func RelPkg(path string) string {
	r := strings.TrimPrefix(strings.TrimPrefix(path, ModulePath), "/")
	if r == "" {
		return "."
	}
	return r
}

func recvName(d *ast.FuncDecl) string {
	if d.Recv == nil || len(d.Recv.List) == 0 {
		return ""
	}
	t := d.Recv.List[0].Type
	for {
		switch x := t.(type) {
		case *ast.StarExpr:
			t = x.X
		case *ast.ParenExpr:
			t = x.X
		case *ast.IndexExpr:
			t = x.X
		case *ast.IndexListExpr:
			t = x.X
		case *ast.Ident:
			return x.Name
		default:
			return "?"
		}
	}
}

// FuncsOf lists the declared functions of a package (non-test files only), sorted.
func (p *Program) FuncsOf(rel string) []*Func {
	pkg := p.Pkgs[rel]
	if pkg == nil {
		return nil
	}
	var out []*Func
	for _, f := range pkg.Syntax {
		if strings.HasSuffix(p.Fset.Position(f.Pos()).Filename, "_test.go") {
			continue
		}
		for _, d := range f.Decls {
			fd, ok := d.(*ast.FuncDecl)
			if !ok || fd.Body == nil {
				continue
			}
			name := fd.Name.Name
			if r := recvName(fd); r != "" {
				name = r + "." + name
			}
			obj, _ := pkg.TypesInfo.Defs[fd.Name].(*types.Func)
			out = append(out, &Func{Pkg: pkg, Decl: fd, Obj: obj, Name: name, Body: fd.Body, Type: fd.Type})
		}
	}
	sort.Slice(out, func(i, j int) bool { return out[i].Name < out[j].Name })
	return out
}

// LookupFunc finds "Recv.Method" or "Func" in package rel; nil if absent.
func (p *Program) LookupFunc(rel, name string) *Func {
	for _, f := range p.FuncsOf(rel) {
		if f.Name == name {
			return f
		}
	}
	return nil
}

// Lits returns the function literals nested (at any depth) in f, in source order,
// named f.Name#lit1, #lit2 ...
func (f *Func) Lits() []*Func {
	var out []*Func
	root := f
	for root.Parent != nil {
		root = root.Parent
	}
	n := 0
	// number literals over the whole root declaration so that names are stable
	var all []*ast.FuncLit
	ast.Inspect(root.Body, func(x ast.Node) bool {
		if l, ok := x.(*ast.FuncLit); ok {
			all = append(all, l)
		}
		return true
	})
	idx := map[*ast.FuncLit]int{}
	for i, l := range all {
		idx[l] = i + 1
	}
	ast.Inspect(f.Body, func(x ast.Node) bool {
		if l, ok := x.(*ast.FuncLit); ok {
			n++
			out = append(out, &Func{Pkg: f.Pkg, Lit: l, Name: fmt.Sprintf("%s#lit%d", root.Name, idx[l]), Body: l.Body, Type: l.Type, Parent: f})
		}
		return true
	})
	return out
}

// DirectLits returns only the literals whose nearest enclosing function is f.
func (f *Func) DirectLits() []*Func {
	var out []*Func
	for _, l := range f.Lits() {
		if EnclosingLit(f.Body, l.Lit) == nil {
			out = append(out, l)
		}
	}
	return out
}

// EnclosingLit returns the innermost function literal inside root that strictly
// contains n, or nil.
func EnclosingLit(root ast.Node, n ast.Node) *ast.FuncLit {
	var best *ast.FuncLit
	ast.Inspect(root, func(x ast.Node) bool {
		if x == nil {
			return false
		}
		if x.Pos() > n.Pos() || x.End() < n.End() {
			return false
		}
		if l, ok := x.(*ast.FuncLit); ok && ast.Node(l) != n {
			best = l
		}
		return true
	})
	return best
}

// InspectShallow walks n without descending into function literals.
func InspectShallow(n ast.Node, fn func(ast.Node) bool) {
	ast.Inspect(n, func(x ast.Node) bool {
		if x == nil {
			return false
		}
		if _, ok := x.(*ast.FuncLit); ok && x != n {
			return false
		}
		return fn(x)
	})
}

// LitUse describes how a function literal is used by its parent.
type LitUse struct {
	Kind   string        // "go", "defer", "arg", "call" (immediately invoked), "assign", "other"
	Callee string        // for "arg": ObjName of the function the literal is passed to
	Call   *ast.CallExpr // the call it is an argument of / invoked by
	Stmt   ast.Stmt      // go/defer statement
	Var    types.Object  // for "assign": the variable
}

// UseOfLit finds how literal lit (nested in root) is used.
func UseOfLit(info *types.Info, root ast.Node, lit *ast.FuncLit) LitUse {
	var path []ast.Node
	var found []ast.Node
	ast.Inspect(root, func(n ast.Node) bool {
		if found != nil {
			return false
		}
		if n == nil {
			path = path[:len(path)-1]
			return false
		}
		path = append(path, n)
		if n == ast.Node(lit) {
			found = append([]ast.Node{}, path...)
			return false
		}
		return true
	})
	if len(found) < 2 {
		return LitUse{Kind: "other"}
	}
	parent := found[len(found)-2]
	switch p := parent.(type) {
	case *ast.CallExpr:
		if ast.Unparen(p.Fun) == ast.Expr(lit) {
			// immediately invoked: go/defer/plain
			if len(found) >= 3 {
				switch s := found[len(found)-3].(type) {
				case *ast.GoStmt:
					return LitUse{Kind: "go", Call: p, Stmt: s}
				case *ast.DeferStmt:
					return LitUse{Kind: "defer", Call: p, Stmt: s}
				}
			}
			return LitUse{Kind: "call", Call: p}
		}
		return LitUse{Kind: "arg", Callee: CalleeName(info, p), Call: p}
	case *ast.AssignStmt:
		for i, r := range p.Rhs {
			if r == ast.Expr(lit) && i < len(p.Lhs) {
				if id, ok := p.Lhs[i].(*ast.Ident); ok {
					o := info.Defs[id]
					if o == nil {
						o = info.Uses[id]
					}
					return LitUse{Kind: "assign", Var: o}
				}
			}
		}
	case *ast.KeyValueExpr:
		return LitUse{Kind: "field"}
	}
	return LitUse{Kind: "other"}
}

// Use reports how literal function f is used by its parent.
func (f *Func) Use() LitUse {
	if f.Lit == nil || f.Parent == nil {
		return LitUse{Kind: "other"}
	}
	return UseOfLit(f.Info(), f.Parent.Body, f.Lit)
}

// canonicalise rewrites, in place, spellings that differ only in operand order so that the
// rules see one form: a comparison with a constant (or nil) on the left and a non-constant on
// the right is turned round (`0 == x` → `x == 0`, `-1 != seed` → `seed != -1`, `0 < n` →
// `n > 0`); `x += 1` / `x -= 1` on an integer becomes `x++` / `x--`. The type information of the operands is keyed by their own nodes and stays valid.
func canonicalise(info *types.Info, f *ast.File) {
	isConst := func(e ast.Expr) bool {
		tv, ok := info.Types[e]
		return ok && (tv.Value != nil || tv.IsNil())
	}
	// `if a { if b { X } }` (no else, no init on either) → `if a && b { X }`: the graph does not
	// model short-circuit evaluation, so the two are the same to every rule
	ast.Inspect(f, func(n ast.Node) bool {
		outer, ok := n.(*ast.IfStmt)
		if !ok {
			return true
		}
		for outer.Else == nil && len(outer.Body.List) == 1 {
			inner, isIf := outer.Body.List[0].(*ast.IfStmt)
			if !isIf || inner.Init != nil || inner.Else != nil {
				break
			}
			and := &ast.BinaryExpr{X: outer.Cond, OpPos: outer.Cond.End(), Op: token.LAND, Y: inner.Cond}
			if tv, okT := info.Types[outer.Cond]; okT {
				info.Types[and] = types.TypeAndValue{Type: tv.Type}
			}
			outer.Cond = and
			outer.Body = inner.Body
		}
		return true
	})
	// `x += 1` / `x -= 1` on an integer → `x++` / `x--`
	astutil.Apply(f, func(cur *astutil.Cursor) bool {
		as, ok := cur.Node().(*ast.AssignStmt)
		if !ok || (as.Tok != token.ADD_ASSIGN && as.Tok != token.SUB_ASSIGN) || len(as.Lhs) != 1 || len(as.Rhs) != 1 {
			return true
		}
		tv, ok := info.Types[as.Rhs[0]]
		if !ok || tv.Value == nil || tv.Value.Kind() != constant.Int {
			return true
		}
		if v, exact := constant.Int64Val(tv.Value); !exact || v != 1 {
			return true
		}
		if bt, isB := info.TypeOf(as.Lhs[0]).Underlying().(*types.Basic); !isB || bt.Info()&types.IsInteger == 0 {
			return true
		}
		tok := token.INC
		if as.Tok == token.SUB_ASSIGN {
			tok = token.DEC
		}
		// only where a statement can be replaced in place (not the post statement of a for clause, which
		// astutil can also replace; both are fine)
		cur.Replace(&ast.IncDecStmt{X: as.Lhs[0], TokPos: as.TokPos, Tok: tok})
		return true
	}, nil)
	// integer comparisons next to zero are spelled with the constant 0:
	// `x < 1` → `x <= 0`, `x >= 1` → `x > 0`, `x > -1` → `x >= 0`, `x <= -1` → `x < 0`
	defer ast.Inspect(f, func(n ast.Node) bool {
		be, ok := n.(*ast.BinaryExpr)
		if !ok {
			return true
		}
		tv, ok := info.Types[be.Y]
		if !ok || tv.Value == nil || tv.Value.Kind() != constant.Int {
			return true
		}
		xt := info.TypeOf(be.X)
		if xt == nil {
			return true
		}
		if bt, isB := xt.Underlying().(*types.Basic); !isB || bt.Info()&types.IsInteger == 0 {
			return true
		}
		v, exact := constant.Int64Val(tv.Value)
		if !exact {
			return true
		}
		var op token.Token
		switch {
		case be.Op == token.LSS && v == 1:
			op = token.LEQ
		case be.Op == token.GEQ && v == 1:
			op = token.GTR
		case be.Op == token.GTR && v == -1:
			op = token.GEQ
		case be.Op == token.LEQ && v == -1:
			op = token.LSS
		default:
			return true
		}
		zero := &ast.BasicLit{ValuePos: be.Y.Pos(), Kind: token.INT, Value: "0"}
		info.Types[zero] = types.TypeAndValue{Type: tv.Type, Value: constant.MakeInt64(0)}
		be.Op, be.Y = op, zero
		return true
	})
	ast.Inspect(f, func(n ast.Node) bool {
		be, ok := n.(*ast.BinaryExpr)
		if !ok || !isConst(be.X) || isConst(be.Y) {
			return true
		}
		switch be.Op {
		case token.EQL, token.NEQ:
		case token.LSS:
			be.Op = token.GTR
		case token.GTR:
			be.Op = token.LSS
		case token.LEQ:
			be.Op = token.GEQ
		case token.GEQ:
			be.Op = token.LEQ
		default:
			return true
		}
		// keep the node's extent: the operands change places inside parentheses that carry the
		// positions of the places they move to (Pos()/End() of the comparison stay what they were)
		ox, oy := be.X, be.Y
		nx := &ast.ParenExpr{Lparen: ox.Pos(), X: oy, Rparen: ox.End() - 1}
		ny := &ast.ParenExpr{Lparen: oy.Pos(), X: ox, Rparen: oy.End() - 1}
		if tv, ok := info.Types[oy]; ok {
			info.Types[nx] = tv
		}
		if tv, ok := info.Types[ox]; ok {
			info.Types[ny] = tv
		}
		be.X, be.Y = nx, ny
		return true
	})
}

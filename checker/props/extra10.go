package props

// Rules written after the ninth round of seeded changes.

import (
	"go/ast"
	"go/token"
	"go/types"
	"strings"

	"verifcheck/core"
)

func init() {
	wrap := func(id string, extra func(c *Ctx)) {
		prev := registry[id].Run
		registry[id].Run = func(c *Ctx) { prev(c); extra(c) }
	}
	wrap("C02", extra10C02)
	wrap("C03", extra10C03)
	wrap("C07", extra10C07)
	wrap("C08", func(c *Ctx) { ruleChunkMarkerKey(c, "C08-R17") })
	wrap("C10", extra10C10)
	wrap("C12", extra10C12)
	wrap("C14", extra10C14)
	wrap("C15", extra10C15)
	wrap("C16", extra10C16)
	wrap("C17", extra10C17)
	wrap("C18", extra10C18)
	registry["C08"].Pkgs = append(registry["C08"].Pkgs, regPkg)
	registry["C10"].Pkgs = append(registry["C10"].Pkgs, "template")
	registry["C15"].Pkgs = append(registry["C15"].Pkgs, "discover")
}

// ---------------------------------------------------------------------------------- C02

func extra10C02(c *Ctx) {
	rule := "C02-R17"
	c.Rule(rule, "the expiry queue is as deep as the request queue: in InitScheduler the capacities of pendingReqCh, finishedReqCh and expiredCh are one and the same value, derived from envconfig.MaxQueue — the completed loop is the only reader of expiredCh and posts to it itself while holding a runner's refMu (recorded as a known finding: with a full channel it blocks for good), so a smaller capacity for the expiry channel (the number of runners, say) brings that deadlock from 512 queued expiries down to three")
	f := c.Fn(rule, "server", "InitScheduler")
	if f == nil {
		return
	}
	info := f.Info()
	caps := map[string]ast.Expr{}
	ast.Inspect(f.Body, func(nd ast.Node) bool {
		kv, ok := nd.(*ast.KeyValueExpr)
		if !ok {
			return true
		}
		id, isId := kv.Key.(*ast.Ident)
		if !isId {
			return true
		}
		call, isC := ast.Unparen(kv.Value).(*ast.CallExpr)
		if !isC || core.CalleeName(info, call) != "builtin.make" || len(call.Args) != 2 {
			return true
		}
		if _, isChan := info.TypeOf(call.Args[0]).Underlying().(*types.Chan); isChan {
			caps[id.Name] = call.Args[1]
		}
		return true
	})
	want := []string{"pendingReqCh", "finishedReqCh", "expiredCh"}
	var ref types.Object
	ok := true
	why := ""
	for _, nm := range want {
		e, has := caps[nm]
		if !has {
			ok, why = false, "no make(chan, n) for "+nm
			break
		}
		id, isId := ast.Unparen(e).(*ast.Ident)
		if !isId {
			ok, why = false, nm+" has capacity `"+core.ExprString(e)+"`"
			break
		}
		o := info.Uses[id]
		if ref == nil {
			ref = o
		} else if o != ref {
			ok, why = false, nm+" has capacity `"+id.Name+"`, the request queue `"+ref.Name()+"`"
		}
	}
	if ok && ref != nil {
		rhs, _, cnt := singleDef(info, f.Body, ref)
		if cnt != 1 || rhs == nil || len(core.CallsTo(info, rhs, false, "envconfig.MaxQueue")) != 1 {
			ok, why = false, "the shared capacity is not envconfig.MaxQueue()"
		}
	}
	c.Check(rule, f.Key()+" event channels share the queue bound", c.Pos(f.Decl), ok, why)
}

// ---------------------------------------------------------------------------------- C03

func extra10C03(c *Ctx) {
	rule := "C03-R20"
	c.Rule(rule, "every refusal of the registry is an error: in makeRequestWithRetry the branch that turns a response into an error covers every status from 400 up (StatusCode >= 400, or > 399) — with `>` 400 itself falls through to the success return, pullModelManifest decodes the registry's JSON error document into an empty manifest, and PullModel writes it over the installed one, prunes its layers and reports success")
	f := c.Fn(rule, "server", "makeRequestWithRetry")
	if f == nil {
		return
	}
	info := f.Info()
	n := 0
	ast.Inspect(f.Body, func(nd ast.Node) bool {
		be, ok := nd.(*ast.BinaryExpr)
		if !ok {
			return true
		}
		isStatus := func(e ast.Expr) bool {
			if selName(e) == "StatusCode" {
				return true
			}
			if id, isId := ast.Unparen(e).(*ast.Ident); isId { // a local that holds the status
				if v, isV := info.Uses[id].(*types.Var); isV {
					if rhs, _, cnt := singleDef(info, f.Body, v); cnt == 1 && rhs != nil && selName(rhs) == "StatusCode" {
						return true
					}
				}
			}
			return false
		}
		x, y, op, okO := core.Orient(be, isStatus)
		if !okO {
			return true
		}
		_ = x
		v, isC := core.ConstInt(info, y)
		if !isC || v < 300 {
			return true
		}
		// the range of statuses treated as errors, from either side: status >= c / > c, or the success test
		// status < c / <= c whose other edge is the error
		var lowest int64
		switch op {
		case token.GEQ, token.LSS:
			lowest = v
		case token.GTR, token.LEQ:
			lowest = v + 1
		default:
			return true
		}
		n++
		c.Check(rule, f.Key()+" error statuses#"+itoa(n)+" start at 400", c.Pos(be), lowest <= 400, "responses with status "+itoa(int(lowest-1))+" are not treated as errors (`"+core.ExprString(be)+"`)")
		return true
	})
	c.Expect(rule, "lower bounds of the error-status range in makeRequestWithRetry", n, 1)
}

// ---------------------------------------------------------------------------------- C07

func extra10C07(c *Ctx) {
	rule := "C07-R22"
	c.Rule(rule, "an image placeholder carries the image's identity: in the PostTokenize functions of the model packages every input that is given a Multimodal value is given MultimodalHash in the same literal (or by an assignment to the same element in the same function) — the runner's prefix cache compares inputs by token and hash only (countCommonPrefix), so a placeholder without the hash makes two prompts that differ only in the image bytes equal, the slot of the first is reused and the model answers about the previous picture")
	n := 0
	for _, rel := range []string{"model/models/gemma3", "model/models/mistral3", "model/models/mllama"} {
		if c.P.Pkgs[rel] == nil {
			continue
		}
		for _, f := range c.P.FuncsOf(rel) {
			if !strings.HasSuffix(f.Name, ".PostTokenize") {
				continue
			}
			info := f.Info()
			hashStores := 0
			ast.Inspect(f.Body, func(nd ast.Node) bool {
				if as, ok := nd.(*ast.AssignStmt); ok {
					for _, l := range as.Lhs {
						if selName(l) == "MultimodalHash" {
							hashStores++
						}
					}
				}
				return true
			})
			ast.Inspect(f.Body, func(nd ast.Node) bool {
				switch x := nd.(type) {
				case *ast.CompositeLit:
					if core.ObjNameOfType(info.TypeOf(x)) != "model/input.Input" {
						return true
					}
					hasMM, hasHash := false, false
					for _, el := range x.Elts {
						if kv, ok := el.(*ast.KeyValueExpr); ok {
							if id, isId := kv.Key.(*ast.Ident); isId {
								switch id.Name {
								case "Multimodal":
									hasMM = true
								case "MultimodalHash":
									hasHash = true
								}
							}
						}
					}
					if hasMM {
						n++
						c.Check(rule, f.Key()+" literal#"+itoa(n)+" with image data carries the hash", c.Pos(x), hasHash, "an input literal sets Multimodal without MultimodalHash")
					}
				case *ast.AssignStmt:
					for _, l := range x.Lhs {
						if selName(l) == "Multimodal" {
							n++
							c.Check(rule, f.Key()+" store#"+itoa(n)+" of image data comes with the hash", c.Pos(x), hashStores > 0, "Multimodal is assigned to an input and MultimodalHash is assigned nowhere in the function")
						}
					}
				}
				return true
			})
		}
	}
	c.Expect(rule, "inputs given image data in the PostTokenize functions", n, 2)
}

// ---------------------------------------------------------------------------------- C10

func extra10C10(c *Ctx) {
	rule := "C10-R17"
	c.Rule(rule, "matching the file's chat template cannot divide by zero: in template.Named (called from the create goroutine with tokenizer.chat_template as it stands in the file) every division or remainder whose divisor is not a constant lies behind a test that the divisor, or the string whose length it is, is not zero/empty — a relative threshold score*100/len(s) on the trimmed template panics for a template of white space only, in a goroutine the recovery middleware does not cover")
	f := c.Fn(rule, "template", "Named")
	if f == nil {
		return
	}
	info := f.Info()
	g := c.G(f)
	n := 0
	ast.Inspect(f.Body, func(nd ast.Node) bool {
		be, ok := nd.(*ast.BinaryExpr)
		if !ok || (be.Op != token.QUO && be.Op != token.REM) {
			return true
		}
		if tv, has := info.Types[be.Y]; has && tv.Value != nil {
			return true
		}
		if b, isB := info.TypeOf(be.Y).Underlying().(*types.Basic); !isB || b.Info()&types.IsInteger == 0 {
			return true
		}
		n++
		div := core.ExprString(ast.Unparen(be.Y))
		var lenOf string
		if call, isC := ast.Unparen(be.Y).(*ast.CallExpr); isC && core.CalleeName(info, call) == "builtin.len" && len(call.Args) == 1 {
			lenOf = core.ExprString(call.Args[0])
		}
		guarded := false
		for _, a := range g.AtomsAt(g.Locate(be)) {
			cb, isB := ast.Unparen(a.Expr).(*ast.BinaryExpr)
			if !isB {
				continue
			}
			l, r := core.ExprString(ast.Unparen(cb.X)), core.ExprString(ast.Unparen(cb.Y))
			zero := r == "0" || r == `""`
			about := l == div || (lenOf != "" && l == lenOf)
			if !zero || !about {
				continue
			}
			if (cb.Op == token.NEQ && a.Val) || (cb.Op == token.EQL && !a.Val) || (cb.Op == token.GTR && a.Val) || (cb.Op == token.LEQ && !a.Val) {
				guarded = true
			}
		}
		c.Check(rule, f.Key()+" division#"+itoa(n)+" by a value known not to be zero", c.Pos(be), guarded, "`"+core.ExprString(be)+"` divides by `"+div+"` with no dominating zero/empty test")
		return true
	})
	c.OK(rule, "template.Named divisions", "-", itoa(n)+" division(s) by a non-constant examined")
}

// ---------------------------------------------------------------------------------- C12

func extra10C12(c *Ctx) { ruleTolerantNameLookup(c, "C12-R14") }

func ruleTolerantNameLookup(c *Ctx, rule string) {
	c.Rule(rule, "an unreadable manifest does not block the operations that would repair it: getExistingName scans the store with Manifests(true) (unreadable manifests skipped) — every store-changing handler resolves its name through it first, and with the strict scan one manifest torn by a kill makes pull, create, copy, delete and push answer 400 before they reach the code that would overwrite or remove the file, so the interrupted operation can never be repeated")
	f := c.Fn(rule, "server", "getExistingName")
	if f == nil {
		return
	}
	info := f.Info()
	n := 0
	for _, call := range core.CallsTo(info, f.Body, false, "server.Manifests") {
		n++
		tolerant := false
		if len(call.Args) == 1 {
			if tv, has := info.Types[call.Args[0]]; has && tv.Value != nil && tv.Value.String() == "true" {
				tolerant = true
			}
		}
		c.Check(rule, f.Key()+" scan#"+itoa(n)+" skips unreadable manifests", c.Pos(call), tolerant, "the name look-up fails on the first unreadable manifest (`"+core.ExprString(call)+"`)")
	}
	c.Expect(rule, "manifest scans in getExistingName", n, 1)
}

// ---------------------------------------------------------------------------------- C14

func extra10C14(c *Ctx) {
	rule := "C14-R13"
	c.Rule(rule, "every piece is searched for every stop: in processBatch of both runners the stop list handed to FindStop and ContainsStopSuffix is the sequence's stop field itself (directly, or a local assigned once from it) — a list that is emptied when the piece holds none of the stops' first bytes is wrong for stops that begin with a multi-byte character (strings.ContainsAny compares code points, a lone lead byte matches nothing), and the stop sequence is streamed")
	n := 0
	for _, rel := range []string{ollamaRunnerPkg, llamaRunnerPkg} {
		f := c.Fn(rule, rel, "Server.processBatch")
		if f == nil {
			continue
		}
		info := f.Info()
		fStop := c.P.LookupField(rel, "Sequence", "stop")
		if fStop == nil {
			c.Undecided(rule, "anchor:"+rel+".Sequence.stop", "-", "anchor lost")
			continue
		}
		for _, call := range core.CallsTo(info, f.Body, false, commonPkg+".FindStop", commonPkg+".ContainsStopSuffix") {
			if len(call.Args) != 2 {
				continue
			}
			n++
			arg := ast.Unparen(call.Args[1])
			ok := core.FieldVar(info, arg) == fStop
			if id, isId := arg.(*ast.Ident); isId && !ok {
				if v, isV := info.Uses[id].(*types.Var); isV {
					if rhs, _, cnt := singleDef(info, f.Body, v); cnt == 1 && rhs != nil && core.FieldVar(info, rhs) == fStop {
						ok = true
					}
				}
			}
			c.Check(rule, f.Key()+" stop list#"+itoa(n)+" is the sequence's", c.Pos(call), ok, "`"+core.ExprString(call)+"` does not search for the sequence's own stop list on every path")
		}
	}
	c.Expect(rule, "stop searches in the two processBatch functions", n, 4)
}

// ---------------------------------------------------------------------------------- C15

func extra10C15(c *Ctx) {
	rule := "C15-R14"
	c.Rule(rule, "every caller of GetGPUInfo gets a list of its own: the slice discover.GetGPUInfo returns is created in the call (a composite literal or make), not carved out of a package-level variable — the scheduler stores the returned list in the runner (runnerRef.gpus) and reads it on the unload path without discover's mutex, so a buffer that the next refresh rewrites in place is an unsynchronised conflicting access")
	f := c.Fn(rule, "discover", "GetGPUInfo")
	if f == nil {
		return
	}
	info := f.Info()
	g := c.G(f)
	n := 0
	for _, ex := range g.Returns() {
		if ex.Return == nil || len(ex.Return.Results) != 1 {
			continue
		}
		id, isId := ast.Unparen(ex.Return.Results[0]).(*ast.Ident)
		if !isId {
			continue
		}
		v, isV := info.Uses[id].(*types.Var)
		if !isV {
			continue
		}
		n++
		bad := ""
		fresh := false
		for _, as := range g.AssignsTo(v) {
			a, isA := as.Node.(*ast.AssignStmt)
			if !isA {
				continue
			}
			for i, l := range a.Lhs {
				lid, isL := ast.Unparen(l).(*ast.Ident)
				if !isL || info.ObjectOf(lid) != types.Object(v) || i >= len(a.Rhs) {
					continue
				}
				rhs := ast.Unparen(a.Rhs[i])
				switch x := rhs.(type) {
				case *ast.CompositeLit:
					fresh = true
				case *ast.CallExpr:
					nm := core.CalleeName(info, x)
					if nm == "builtin.make" {
						fresh = true
					} else if nm == "builtin.append" && len(x.Args) > 0 && isIdentOf(info, x.Args[0], v) {
						// grows itself
					} else {
						bad = core.ExprString(rhs)
					}
				default:
					// a slice of, or an alias for, something else
					shared := false
					ast.Inspect(rhs, func(m ast.Node) bool {
						if id2, ok := m.(*ast.Ident); ok {
							if pv, isPV := info.Uses[id2].(*types.Var); isPV && pv.Parent() == f.Pkg.Types.Scope() {
								shared = true
							}
						}
						return true
					})
					if shared {
						bad = core.ExprString(rhs)
					}
				}
			}
		}
		c.Check(rule, f.Key()+" return#"+itoa(n)+" hands out a fresh list", c.Pos(ex.Return), fresh && bad == "", "the returned list is `"+bad+"`: storage shared with later calls")
	}
	c.Expect(rule, "returns of a list variable in GetGPUInfo", n, 1)
}

// ---------------------------------------------------------------------------------- C16

func extra10C16(c *Ctx) {
	rule := "C16-R11"
	c.Rule(rule, "the reserve is read as the decimal number of bytes the operator wrote: the strconv.ParseUint behind envconfig.GpuOverhead parses in base 10 (constant) — with base 0 a zero-padded byte count is taken for octal (0400000000 is 67 MB) or refused, the error is only logged, and the estimator plans into memory that was to stay free")
	f := c.Fn(rule, "envconfig", "Uint64")
	if f == nil {
		return
	}
	info := f.Info()
	n := 0
	for _, call := range core.CallsTo(info, f.Body, true, "strconv.ParseUint") {
		n++
		v, isC := core.ConstInt(info, call.Args[1])
		c.Check(rule, f.Key()+" parse#"+itoa(n)+" in base 10", c.Pos(call), isC && v == 10, "base "+core.ExprString(call.Args[1])+": a leading zero changes the value")
	}
	c.Expect(rule, "ParseUint calls in envconfig.Uint64", n, 1)
}

// ---------------------------------------------------------------------------------- C17

func extra10C17(c *Ctx) {
	rule := "C17-R18"
	c.Rule(rule, "the unparsed end starts where the failed decode started: in parseObjectsRest the rest that is handed back is s[X:] for the same X from which the decoder that hit the unexpected end was created (strings.NewReader(s[X:])) in that iteration — an offset relative to a decoder that was started elsewhere gives back text that was already parsed, and the streaming buffer then delivers tool calls a second time")
	f := c.Fn(rule, "server", "parseObjectsRest")
	if f == nil {
		return
	}
	info := f.Info()
	g := c.G(f)
	s := paramAt(f, 0)
	n := 0
	// the suffix of s an expression denotes (through single-assignment locals): the text of X in s[X:]
	suffixStart := func(e ast.Expr) (string, bool) {
		for _, x := range expand(g, e, 2) {
			ex, isE := x.(ast.Expr)
			if !isE {
				continue
			}
			if se, ok := ast.Unparen(ex).(*ast.SliceExpr); ok && isIdentOf(info, se.X, s) && se.High == nil && se.Low != nil {
				return core.ExprString(se.Low), true
			}
		}
		return "", false
	}
	// offsets the decoders are created from
	starts := map[string]bool{}
	nDec := 0
	for _, call := range core.CallsTo(info, f.Body, false, "strings.NewReader") {
		nDec++
		if st, ok := suffixStart(call.Args[0]); ok {
			starts[st] = true
		} else {
			starts["<"+core.ExprString(call.Args[0])+">"] = true
		}
	}
	// the named result, if any
	var restVar types.Object
	if f.Type.Results != nil && len(f.Type.Results.List) == 2 && len(f.Type.Results.List[1].Names) == 1 {
		restVar = info.Defs[f.Type.Results.List[1].Names[0]]
	}
	judge := func(at ast.Node, e ast.Expr) {
		if id, isId := ast.Unparen(e).(*ast.Ident); isId && restVar != nil && info.Uses[id] == restVar {
			return // the named result itself: judged where it is assigned
		}
		if tv, has := info.Types[e]; has && tv.Value != nil {
			return // the empty string
		}
		st, ok := suffixStart(e)
		if !ok {
			return
		}
		n++
		c.Check(rule, f.Key()+" rest#"+itoa(n)+" starts at the decoder's start", c.Pos(at), len(starts) == 1 && starts[st], "the rest is `"+core.ExprString(e)+"` (from s["+st+":]) while the decoders read from "+itoa(len(starts))+" starting point(s)")
	}
	ast.Inspect(f.Body, func(nd ast.Node) bool {
		switch x := nd.(type) {
		case *ast.AssignStmt:
			for i, l := range x.Lhs {
				if id, isId := l.(*ast.Ident); isId && restVar != nil && info.ObjectOf(id) == restVar && i < len(x.Rhs) {
					judge(x, x.Rhs[i])
				}
			}
		case *ast.ReturnStmt:
			if len(x.Results) == 2 {
				judge(x, x.Results[1])
			}
		}
		return true
	})
	c.Expect(rule, "assignments of the unparsed rest in parseObjectsRest", n, 1)
}

// ---------------------------------------------------------------------------------- C18

func extra10C18(c *Ctx) {
	rule := "C18-R10"
	c.Rule(rule, "the temperature scales every candidate: sample.temperature loops over its whole list (range, or an index up to len) and divides the value of the current element by the temperature in the loop body, and never re-slices the list — a stride of four without a remainder loop leaves the last one to three candidates at their raw logits, the list is no longer in descending order, and top-p / min-p, which take the first entry for the maximum and cut a prefix, admit tokens outside the set the parameters define")
	f := c.Fn(rule, "sample", "temperature")
	if f == nil {
		return
	}
	info := f.Info()
	ts := paramAt(f, 0)
	ok := false
	for _, lp := range listLoops(info, f.Body) {
		if lp.List != ts {
			continue
		}
		ast.Inspect(lp.Body, func(nd ast.Node) bool {
			as, isA := nd.(*ast.AssignStmt)
			if !isA || len(as.Lhs) != 1 {
				return true
			}
			se, isSel := ast.Unparen(as.Lhs[0]).(*ast.SelectorExpr)
			if !isSel || se.Sel.Name != "value" || !lp.IsElem(se.X) {
				return true
			}
			if as.Tok == token.QUO_ASSIGN || as.Tok == token.MUL_ASSIGN {
				ok = true
			}
			if be, isB := ast.Unparen(as.Rhs[0]).(*ast.BinaryExpr); isB && (be.Op == token.QUO || be.Op == token.MUL) && as.Tok == token.ASSIGN {
				ok = true
			}
			return true
		})
	}
	resliced := false
	ast.Inspect(f.Body, func(nd ast.Node) bool {
		if as, isA := nd.(*ast.AssignStmt); isA {
			for _, l := range as.Lhs {
				if isIdentOf(info, l, ts) {
					resliced = true
				}
			}
		}
		return true
	})
	why := ""
	switch {
	case resliced:
		why = "the list is re-sliced while it is scaled: elements past the last full stride are skipped"
	case !ok:
		why = "no loop over the whole list that scales the current element's value"
	}
	c.Check(rule, f.Key()+" scales every candidate", c.Pos(f.Decl), why == "", why)
}

package props

import (
	"go/ast"
	"go/types"
	"sort"

	"verifcheck/core"
)

// fsEffect classifies a call as a file-system effect. kind: "" (none), "cleanup"
// (shrinks/removes: Truncate(0), Remove, Close), or "effect" (creates, extends, renames,
// modifies).
func FsEffect(info *types.Info, call *ast.CallExpr) (name, kind string) { return fsEffect(info, call) }

func fsEffect(info *types.Info, call *ast.CallExpr) (name, kind string) {
	name = core.CalleeName(info, call)
	switch name {
	case "os.Remove", "os.RemoveAll":
		return name, "cleanup"
	case "os.File.Truncate":
		if v, ok := core.ConstInt(info, call.Args[0]); ok && v == 0 {
			return name + "(0)", "cleanup"
		}
		return name + "(n)", "effect"
	case "os.OpenFile":
		if isOpenForWrite(info, call) {
			return name + "(write)", "effect"
		}
		return "", ""
	case "os.Create", "os.WriteFile", "os.Rename", "os.Link", "os.Symlink", "os.Truncate", "os.Chtimes", "os.Chmod",
		"os.Mkdir", "os.MkdirAll", "os.CreateTemp", "os.MkdirTemp",
		"os.File.Write", "os.File.WriteAt", "os.File.WriteString", "os.File.ReadFrom", "os.File.Seek", "os.File.Sync", "os.File.Chmod",
		"io.NewOffsetWriter":
		return name, "effect"
	case "io.Copy", "io.CopyN", "io.CopyBuffer":
		if t := info.Types[call.Args[0]].Type; t != nil && core.ObjNameOfType(t) == "os.File" {
			return name + "(dst *os.File)", "effect"
		}
	}
	return "", ""
}

// effectInventory compares the file-system effect calls of the given functions with an
// audited table func -> effect -> count. Unlisted effects / higher counts are violations
// (a new effect must be classified by a human before the ordering rules mean anything).
func effectInventory(c *Ctx, rule string, fns []*core.Func, audited map[string]map[string]int) {
	total := 0
	for _, fn := range fns {
		got := map[string]int{}
		pos := map[string]string{}
		for _, call := range core.Calls(fn.Body, true) {
			n, k := fsEffect(fn.Info(), call)
			if k == "effect" {
				got[n]++
				total++
				if pos[n] == "" {
					pos[n] = c.Pos(call)
				}
			}
		}
		var names []string
		for n := range got {
			names = append(names, n)
		}
		sort.Strings(names)
		for _, n := range names {
			want := audited[fn.Name][n]
			if got[n] > want && want == 1 {
				// the same effect written on alternative paths (an early-return copy of the call): still one
				// effect per run of the function if no path passes two of them
				g := c.G(fn)
				name := n
				inLit := false
				for _, l := range fn.Lits() {
					for _, call := range core.Calls(l.Body, true) {
						if nn, k := fsEffect(fn.Info(), call); k == "effect" && nn == name {
							inLit = true
						}
					}
				}
				_, exits := g.CountPaths(g.Entry(), func(nd ast.Node) int {
					k := 0
					for _, call := range core.Calls(nd, false) {
						if nn, kind := fsEffect(fn.Info(), call); kind == "effect" && nn == name {
							k++
						}
					}
					return k
				}, nil)
				twice := false
				for _, m := range exits {
					if m&4 != 0 {
						twice = true
					}
				}
				if !inLit && !twice && len(exits) > 0 {
					got[n] = want
				}
			}
			c.Check(rule, fn.Key()+" fs-effect:"+n, pos[n], got[n] <= want,
				"file-system effect not in the audited inventory of this function (found "+itoa(got[n])+", audited "+itoa(want)+"): classify it before trusting the ordering rules")
		}
	}
	c.Count(rule+" fs effects inventoried", total)
}

func itoa(i int) string {
	if i == 0 {
		return "0"
	}
	s := ""
	neg := i < 0
	if neg {
		i = -i
	}
	for i > 0 {
		s = string(rune('0'+i%10)) + s
		i /= 10
	}
	if neg {
		s = "-" + s
	}
	return s
}

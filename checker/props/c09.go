package props

import (
	"go/ast"
	"go/token"
	"go/types"

	"verifcheck/core"
)

const (
	regPkg    = "server/internal/client/ollama"
	regSrvPkg = "server/internal/registry"
)

func init() {
	register(&Prop{ID: "C09", Pkgs: []string{regPkg, blobPkg, regSrvPkg, "server"}, Run: runC09})
}

// goStmts lists `go` statements anywhere inside f (including literals).
func goStmts(f *core.Func) []*ast.GoStmt {
	var out []*ast.GoStmt
	ast.Inspect(f.Body, func(n ast.Node) bool {
		if g, ok := n.(*ast.GoStmt); ok {
			out = append(out, g)
		}
		return true
	})
	return out
}

// litsPassedTo returns the literals of f that are arguments of a call to callee.
func litsPassedTo(f *core.Func, callee string) []*core.Func {
	var out []*core.Func
	for _, l := range f.Lits() {
		if u := core.UseOfLit(f.Info(), f.Body, l.Lit); u.Kind == "arg" && u.Callee == callee {
			out = append(out, l)
		}
	}
	return out
}

func runC09(c *Ctx) {
	info := c.P.Pkgs[regPkg].TypesInfo
	const egGo = "golang.org/x/sync/errgroup.Group.Go"
	const egWait = "golang.org/x/sync/errgroup.Group.Wait"

	// ------------------------------------------------------------ R1/R2/R3 Pull
	c.Rule("C09-R1", "Registry.Pull links the name only behind: nil edge of g.Wait(), equality edge of the byte-count test (completed vs expected), nil edge of storing the manifest blob whose digest is the one linked; every concurrent piece of work runs in the errgroup (no bare go), the chunk file is closed inside the group after the layer's WaitGroup")
	c.Rule("C09-R2", "a chunk is recorded as downloaded (PutBytes of the chunk marker) only on the nil edge of chunked.Put; Chunker.Put builds a hash-checked writer with the chunk's digest and size, copies exactly chunk.Size() bytes and propagates the copy error")
	c.Rule("C09-R3", "expected sums l.Size over the very list the download loop ranges over; completed is advanced only inside the update closure; a layer is skipped only on a cache hit with equal size")
	if f := c.Fn("C09-R1", regPkg, "Registry.Pull"); f != nil {
		g := c.G(f)
		key := f.Key()
		links := g.FindCalls(blobPkg + ".DiskCache.Link")
		waits := g.FindCalls(egWait)
		c.Expect("C09-R1", "Link calls in Pull", len(links), 1)
		c.Expect("C09-R1", "g.Wait calls in Pull", len(waits), 1)
		for _, lk := range links {
			okWait := false
			for _, w := range waits {
				if ok, _ := g.OnSuccessOf(w, lk.Loc); ok {
					okWait = true
				}
			}
			c.Check("C09-R1", key+" call:Link after g.Wait ok", c.Pos(lk.Node), okWait, "Link must be on the nil edge of g.Wait()")
			// byte-count test
			okCount := false
			for _, a := range g.AtomsAt(lk.Loc) {
				be, ok := ast.Unparen(a.Expr).(*ast.BinaryExpr)
				if !ok || !((be.Op == token.NEQ && !a.Val) || (be.Op == token.EQL && a.Val)) {
					continue
				}
				if derivesFromMethod(g, be.X, "sync/atomic.Int64.Load") && accumulatesField(g, be.Y, "Size") ||
					derivesFromMethod(g, be.Y, "sync/atomic.Int64.Load") && accumulatesField(g, be.X, "Size") {
					okCount = true
				}
			}
			c.Check("C09-R1", key+" call:Link behind byte-count equality", c.Pos(lk.Node), okCount, "Link must be on the equal edge of completed.Load() vs the expected total of layer sizes")
			// manifest blob stored first, same digest
			okPut := false
			lc := lk.Node.(*ast.CallExpr)
			for _, p := range g.FindCalls(blobPkg+".PutBytes", blobPkg+".DiskCache.Put") {
				if ok, _ := g.OnSuccessOf(p, lk.Loc); !ok {
					continue
				}
				pc := p.Node.(*ast.CallExpr)
				if len(pc.Args) >= 3 && len(lc.Args) == 2 {
					pd, ld := core.PathOf(info, pc.Args[1]), core.PathOf(info, lc.Args[1])
					if pd.Valid() && pd.Key() == ld.Key() {
						// digest computed from the stored data
						for _, as := range g.AssignsTo(pd.Root) {
							for _, dc := range core.CallsTo(info, as.Node, false, blobPkg+".DigestFromBytes") {
								if core.ExprString(dc.Args[0]) == core.ExprString(pc.Args[2]) {
									okPut = true
								}
							}
						}
					}
				}
			}
			c.Check("C09-R1", key+" call:Link after manifest blob stored", c.Pos(lk.Node), okPut, "Link must follow a successful PutBytes of the manifest data under the digest computed from that data, and link that digest")
		}
		gos := goStmts(f)
		c.Check("C09-R1", key+" no bare go statements", c.Pos(f.Decl), len(gos) == 0, "work started outside the errgroup is not awaited by g.Wait()")
		// chunk work and Close inside g.Go
		for _, call := range core.Calls(f.Body, true) {
			name := core.CalleeName(info, call)
			if name != blobPkg+".Chunker.Put" && name != blobPkg+".Chunker.Close" {
				continue
			}
			lit := core.EnclosingLit(f.Body, call)
			inGroup := false
			var litFn *core.Func
			for _, l := range f.Lits() {
				if l.Lit == lit {
					litFn = l
				}
			}
			if litFn != nil {
				if u := core.UseOfLit(info, f.Body, lit); u.Kind == "arg" && u.Callee == egGo {
					inGroup = true
				}
			}
			c.Check("C09-R1", key+" call:"+name+" runs in errgroup", c.Pos(call), inGroup, "chunk writes and the chunk-file close must run inside g.Go so that g.Wait() covers them")
			if inGroup && name == blobPkg+".Chunker.Close" {
				lg := c.G(litFn)
				cl := lg.FindCalls(blobPkg + ".Chunker.Close")
				wg := lg.FindCalls("sync.WaitGroup.Wait")
				c.Check("C09-R1", key+" call:Chunker.Close after wg.Wait", c.Pos(call), len(cl) == 1 && lg.DominatingHit(wg, cl[0].Loc) != nil, "the chunk file must be closed only after every chunk of the layer finished")
			}
			if inGroup && name == blobPkg+".Chunker.Put" {
				lg := c.G(litFn)
				puts := lg.FindCalls(blobPkg + ".Chunker.Put")
				marks := lg.FindCalls(blobPkg+".PutBytes", blobPkg+".DiskCache.Put")
				c.Expect("C09-R2", "chunk marker writes", len(marks), 1)
				for _, m := range marks {
					ok := false
					for _, p := range puts {
						if s, _ := lg.OnSuccessOf(p, m.Loc); s {
							ok = true
						}
					}
					c.Check("C09-R2", litFn.Key()+" call:PutBytes(chunk marker)", c.Pos(m.Node), ok, "the chunk marker must be written only on the nil edge of chunked.Put")
				}
				// wg.Done deferred
				hasDone := false
				ast.Inspect(litFn.Body, func(n ast.Node) bool {
					if d, ok := n.(*ast.DeferStmt); ok {
						for _, cc := range core.Calls(d, true) {
							if core.CalleeName(info, cc) == "sync.WaitGroup.Done" {
								hasDone = true
							}
						}
					}
					return true
				})
				c.Check("C09-R1", litFn.Key()+" defer wg.Done", c.Pos(litFn.Lit), hasDone, "chunk goroutine must release the layer WaitGroup by defer")
			}
		}
		// R3 accounting
		var expectedObj types.Object
		var rangeObjs []types.Object
		for _, lp := range listLoops(info, f.Body) {
			isLayerList := false
			if sl, ok := lp.ListType.Underlying().(*types.Slice); ok && core.ObjNameOfType(sl.Elem()) == regPkg+".Layer" {
				isLayerList = true
			}
			if !isLayerList {
				continue
			}
			rangeObjs = append(rangeObjs, lp.List)
			ast.Inspect(lp.Body, func(m ast.Node) bool {
				if as, ok := m.(*ast.AssignStmt); ok && as.Tok == token.ADD_ASSIGN && len(as.Lhs) == 1 {
					if se, ok := ast.Unparen(as.Rhs[0]).(*ast.SelectorExpr); ok && se.Sel.Name == "Size" && lp.IsElem(se.X) {
						expectedObj = core.PathOf(info, as.Lhs[0]).Root
					}
				}
				return true
			})
		}
		same := len(rangeObjs) >= 2
		for _, o := range rangeObjs {
			if o != rangeObjs[0] {
				same = false
			}
		}
		c.Check("C09-R3", key+" expected and download loops range over one list", c.Pos(f.Decl), same && expectedObj != nil, "the expected byte total and the download loop must iterate the same layer list")
		// the list includes the config layer
		cfgAppended := false
		if len(rangeObjs) > 0 {
			for _, as := range g.AssignsTo(rangeObjs[0]) {
				for _, x := range expand(g, as.Node, 2) { // through a local (`cfg := m.Config`)
					ast.Inspect(x, func(n ast.Node) bool {
						if se, ok := n.(*ast.SelectorExpr); ok && se.Sel.Name == "Config" {
							cfgAppended = true
						}
						return true
					})
				}
			}
		}
		c.Check("C09-R3", key+" layer list includes config", c.Pos(f.Decl), cfgAppended, "the downloaded list must be Layers plus Config")
		// completed.Add only inside the closure assigned to `update`
		// the counter: the local atomic.Int64 whose Load() is compared with the expected total
		var completedObj types.Object
		for _, call := range core.Calls(f.Body, true) {
			if core.CalleeName(info, call) == "sync/atomic.Int64.Load" {
				if p := core.PathOf(info, call.Fun.(*ast.SelectorExpr).X); p.Valid() && len(p.Fields) == 0 {
					completedObj = p.Root
				}
			}
		}
		adds := 0
		for _, call := range core.Calls(f.Body, true) {
			if core.CalleeName(info, call) != "sync/atomic.Int64.Add" {
				continue
			}
			se := call.Fun.(*ast.SelectorExpr)
			p := core.PathOf(info, se.X)
			if !p.Valid() || completedObj == nil || p.Root != completedObj {
				continue
			}
			adds++
			lit := core.EnclosingLit(f.Body, call)
			ok := false
			if lit != nil {
				if u := core.UseOfLit(info, f.Body, lit); u.Kind == "assign" && u.Var != nil {
					ok = true
				}
			}
			c.Check("C09-R3", key+" completed.Add only in update", c.Pos(call), ok, "the completed byte counter may only be advanced through the update closure")
		}
		c.Expect("C09-R3", "completed.Add sites", adds, 1)
		// layer skip only on size-equal cache hit
		gets := g.FindCalls(blobPkg + ".DiskCache.Get")
		c.Expect("C09-R3", "cache look-ups in Pull", len(gets), 1)
		for _, h := range g.Find(func(n ast.Node) bool { b, ok := n.(*ast.BranchStmt); return ok && b.Tok == token.CONTINUE }) {
			ok := false
			for _, gt := range gets {
				if !g.Dominates(gt.Loc, h.Loc) {
					continue
				}
				gc := gt.Node.(*ast.CallExpr)
				iv := core.ResultVar(info, gt.Top, gc, 0)
				ev := core.ResultVar(info, gt.Top, gc, 1)
				okErr, okSize := false, false
				for _, a := range factsAt(info, f.Body, g, h.Loc) {
					if x, eq, isNil := core.IsNilCheck(info, a.Expr); isNil && ev != nil && core.UsesObj(info, x, ev) && eq == a.Val {
						okErr = true
					}
					if be, isB := ast.Unparen(a.Expr).(*ast.BinaryExpr); isB && be.Op == token.EQL && a.Val && iv != nil {
						l, r := be.X, be.Y
						if core.UsesObj(info, r, iv) {
							l, r = r, l
						}
						if core.UsesObj(info, l, iv) && selName(l) == "Size" && selName(r) == "Size" {
							okSize = true
						}
					}
				}
				if okErr && okSize {
					ok = true
				}
			}
			c.Check("C09-R3", key+" layer skipped only on size-equal cache hit", c.Pos(h.Node), ok, "a layer may be skipped only when the cache has an entry (err == nil) whose Size equals the manifest's")
		}
	}
	if f := c.Fn("C09-R2", blobPkg, "Chunker.Put"); f != nil {
		g := c.G(f)
		binfo := c.P.Pkgs[blobPkg].TypesInfo
		cps := g.FindCalls("io.CopyN")
		c.Expect("C09-R2", "io.CopyN in Chunker.Put", len(cps), 1)
		chunk, dpar := paramAt(f, 0), paramAt(f, 1)
		for _, cp := range cps {
			cc := cp.Node.(*ast.CallExpr)
			// isChunkSize: chunk.Size(), or a local assigned once from it
			isChunkSize := func(e ast.Expr) bool {
				e = ast.Unparen(e)
				if id, isId := e.(*ast.Ident); isId {
					if rhs, _, cnt := singleDef(binfo, f.Body, binfo.Uses[id]); cnt == 1 && rhs != nil {
						e = ast.Unparen(rhs)
					}
				}
				call, ok := e.(*ast.CallExpr)
				return ok && core.CalleeName(binfo, call) == blobPkg+".Chunk.Size" && chunk != nil && core.UsesObj(binfo, call, chunk)
			}
			okN := isChunkSize(cc.Args[2])
			// destination is a checkWriter literal with d: d, size: chunk.Size()
			okW := false
			if p := core.PathOf(binfo, cc.Args[0]); p.Valid() {
				for _, as := range g.AssignsTo(p.Root) {
					ast.Inspect(as.Node, func(n ast.Node) bool {
						cl, ok := n.(*ast.CompositeLit)
						if !ok || core.ObjNameOfType(binfo.Types[cl].Type) != blobPkg+".checkWriter" {
							return true
						}
						dOK, sOK, wOK := false, false, false
						for _, e := range cl.Elts {
							kv := e.(*ast.KeyValueExpr)
							switch kv.Key.(*ast.Ident).Name {
							case "d":
								dOK = dpar != nil && core.UsesObj(binfo, kv.Value, dpar)
							case "size":
								sOK = isChunkSize(kv.Value)
							case "w":
								for _, oc := range core.CallsTo(binfo, kv.Value, false, "io.NewOffsetWriter") {
									if se, ok := ast.Unparen(oc.Args[1]).(*ast.SelectorExpr); ok && se.Sel.Name == "Start" && core.UsesObj(binfo, se.X, chunk) {
										wOK = true
									}
								}
							}
						}
						okW = dOK && sOK && wOK
						return true
					})
				}
			}
			c.Check("C09-R2", f.Key()+" copy through hash-checked writer", c.Pos(cp.Node), okN && okW, "Chunker.Put must copy exactly chunk.Size() bytes into a checkWriter{d: d, size: chunk.Size(), w: offset writer at chunk.Start}")
			ev := core.ResultVar(binfo, cp.Top, cc, 1)
			for _, ex := range g.Returns() {
				if !g.Dominates(cp.Loc, ex.Loc) {
					// before the copy: only the pre-validated shortcut may return nil
					ok := false
					for _, a := range g.AtomsAt(ex.Loc) {
						if x, eq, isNil := core.IsNilCheck(binfo, a.Expr); isNil && eq == a.Val && selName(x) == "f" {
							ok = true
						}
					}
					c.Check("C09-R2", f.Key()+" early return only when pre-validated", c.Pos(ex.Return), ok, "Put may return early only for a pre-validated (nil file) chunker")
					continue
				}
				k := g.ReturnKind(ex)
				ok := k == core.RetError || (ev != nil && len(ex.Return.Results) == 1 && core.UsesObj(binfo, ex.Return.Results[0], ev))
				c.Check("C09-R2", f.Key()+" copy error propagated", c.Pos(ex.Return), ok, "after the copy, Put must return the copy's error (or a non-nil error)")
			}
		}
	}

	// ------------------------------------------------------------ R4 Push (both)
	c.Rule("C09-R4", "both push implementations send the manifest last: Registry.Push issues the manifest PUT on the nil edge of g.Wait() with every upload request inside g.Go (no bare go); PushModel issues it only when no uploadBlob failure can reach it, after a loop over Layers+Config")
	if f := c.Fn("C09-R4", regPkg, "Registry.Push"); f != nil {
		g := c.G(f)
		waits := g.FindCalls(egWait)
		var manifestPut []core.Hit
		for _, h := range g.FindCalls(regPkg+".Registry.send", regPkg+".sendRequest") {
			manifestPut = append(manifestPut, h)
		}
		c.Expect("C09-R4", "requests issued by Push outside the errgroup (the manifest PUT)", len(manifestPut), 1)
		for _, h := range manifestPut {
			ok := false
			for _, w := range waits {
				if s, _ := g.OnSuccessOf(w, h.Loc); s {
					ok = true
				}
			}
			c.Check("C09-R4", f.Key()+" manifest PUT after g.Wait ok", c.Pos(h.Node), ok, "a request issued by Push itself must be behind the nil edge of g.Wait()")
		}
		c.Check("C09-R4", f.Key()+" no bare go statements", c.Pos(f.Decl), len(goStmts(f)) == 0, "uploads started outside the errgroup are not awaited")
		ups := 0
		for _, l := range f.Lits() {
			for _, call := range core.Calls(l.Body, false) {
				n := core.CalleeName(info, call)
				if n == regPkg+".Registry.send" || n == regPkg+".sendRequest" {
					ups++
					u := core.UseOfLit(info, f.Body, l.Lit)
					c.Check("C09-R4", l.Key()+" upload request inside g.Go", c.Pos(call), u.Kind == "arg" && u.Callee == egGo, "upload requests must run inside g.Go")
				}
			}
		}
		c.Expect("C09-R4", "upload requests in Push closures", ups, 2)
		// the upload closure returns the error of its last request
		for _, l := range litsPassedTo(f, egGo) {
			lg := c.G(l)
			reqs := lg.FindCalls(regPkg+".Registry.send", regPkg+".sendRequest")
			for _, ex := range lg.Returns() {
				if lg.ReturnKind(ex) != core.RetSuccess {
					continue
				}
				// success return: allowed only on the cached path (empty Location) — must be dominated by a successful first request
				ok := false
				for _, r := range reqs {
					if s, _ := lg.OnSuccessOf(r, ex.Loc); s {
						ok = true
					}
				}
				c.Check("C09-R4", l.Key()+" success only after an accepted request", c.Pos(ex.Return), ok, "an upload closure may report success only behind the nil edge of a registry request")
			}
		}
	}
	if f := c.Fn("C09-R4", "server", "PushModel"); f != nil {
		sinfo := c.P.Pkgs["server"].TypesInfo
		g := c.G(f)
		ups := g.FindCalls("server.uploadBlob")
		var puts []core.Hit
		for _, h := range g.FindCalls("server.makeRequestWithRetry") {
			call := h.Node.(*ast.CallExpr)
			if len(call.Args) > 1 {
				if s, ok := core.ConstString(sinfo, call.Args[1]); ok && s == "PUT" {
					puts = append(puts, h)
				}
			}
		}
		c.Expect("C09-R4", "uploadBlob calls in PushModel", len(ups), 1)
		c.Expect("C09-R4", "manifest PUT in PushModel", len(puts), 1)
		for _, p := range puts {
			for _, u := range ups {
				reach, checked := g.FailureReaches(u, p.Loc)
				c.Check("C09-R4", f.Key()+" manifest PUT unreachable after a failed upload", c.Pos(p.Node), checked && !reach, "a failed uploadBlob must not be followed by the manifest PUT")
				// the upload loop comes first and ranges over Layers + Config
				okLoop := false
				ast.Inspect(f.Body, func(n ast.Node) bool {
					rs, ok := n.(*ast.RangeStmt)
					if !ok || !(rs.Pos() <= u.Node.Pos() && u.Node.End() <= rs.End()) {
						return true
					}
					lp := core.PathOf(sinfo, rs.X)
					if !lp.Valid() {
						return true
					}
					hasLayers, hasConfig := false, false
					for _, as := range g.AssignsTo(lp.Root) {
						ast.Inspect(as.Node, func(m ast.Node) bool {
							if se, ok := m.(*ast.SelectorExpr); ok {
								if se.Sel.Name == "Layers" {
									hasLayers = true
								}
								if se.Sel.Name == "Config" {
									hasConfig = true
								}
							}
							return true
						})
					}
					// loop statement dominates the PUT
					if hasLayers && hasConfig && g.Dominates(g.Locate(rs.X), p.Loc) {
						okLoop = true
					}
					// the layer passed to uploadBlob is the loop variable
					if vid, ok := rs.Value.(*ast.Ident); !ok || !core.UsesObj(sinfo, u.Node, sinfo.Defs[vid]) {
						okLoop = false
					}
					return true
				})
				c.Check("C09-R4", f.Key()+" upload loop over Layers+Config precedes the manifest PUT", c.Pos(u.Node), okLoop, "every layer and the config must be uploaded by a loop that dominates the manifest PUT")
			}
		}
	}
	if f := c.Fn("C09-R4", "server", "uploadBlob"); f != nil {
		// success only on: HEAD 200 (already present), or Wait() result
		g := c.G(f)
		n := 0
		for _, ex := range g.Returns() {
			if g.ReturnKind(ex) == core.RetSuccess {
				n++
				ok := false
				for _, h := range g.FindCalls("server.makeRequestWithRetry") {
					if s, _ := g.OnSuccessOf(h, ex.Loc); s {
						ok = true
					}
				}
				c.Check("C09-R4", f.Key()+" 'already present' only after a successful HEAD", c.Pos(ex.Return), ok, "uploadBlob may skip the upload only when the registry answered the existence check")
			}
		}
		c.Expect("C09-R4", "success shortcuts in uploadBlob", n, 1)
	}

	c.Rule("C09-R7", "the default push path reports a layer as uploaded only if the registry accepted it: in blobUpload.Run every store to b.err takes the error variable of the request that just failed / of the final commit request (same object, no shadowing), b.done = true is set only after the commit loop together with that store, and Wait returns b.err once done")
	if f := c.Fn("C09-R7", "server", "blobUpload.Run"); f != nil {
		sinfo := c.P.Pkgs["server"].TypesInfo
		g := c.G(f)
		fErr := c.P.LookupField("server", "blobUpload", "err")
		fDone := c.P.LookupField("server", "blobUpload", "done")
		var commits []core.Hit
		for _, h := range g.FindCalls("server.makeRequestWithRetry") {
			if m, ok := core.ConstString(sinfo, h.Node.(*ast.CallExpr).Args[1]); ok && m == "PUT" {
				commits = append(commits, h)
			}
		}
		c.Expect("C09-R7", "commit requests in blobUpload.Run", len(commits), 1)
		nSt := 0
		for _, st := range g.Find(func(n ast.Node) bool {
			a, ok := n.(*ast.AssignStmt)
			return ok && len(a.Lhs) == 1 && core.FieldVar(sinfo, a.Lhs[0]) == fErr
		}) {
			nSt++
			a := st.Node.(*ast.AssignStmt)
			id, isID := ast.Unparen(a.Rhs[0]).(*ast.Ident)
			if !isID {
				c.Check("C09-R7", f.Key()+" store:blobUpload.err#"+itoa(nSt), c.Pos(a), false, "b.err must be assigned an error variable")
				continue
			}
			obj := sinfo.Uses[id]
			// is this the final store (followed by b.done = true in the same block)?
			final := false
			for _, n := range g.Nodes(st.Loc.B) {
				if a2, ok := n.(*ast.AssignStmt); ok && len(a2.Lhs) == 1 && core.FieldVar(sinfo, a2.Lhs[0]) == fDone {
					final = true
				}
			}
			ok := false
			if final {
				for _, cm := range commits {
					if ev := core.ResultVar(sinfo, cm.Top, cm.Node.(*ast.CallExpr), 1); ev != nil && ev == obj {
						ok = true
					}
				}
				c.Check("C09-R7", f.Key()+" final b.err is the commit request's error", c.Pos(a), ok, "the error stored before b.done = true must be the variable that receives the result of the commit request (a `:=` inside the retry loop shadows it and a refused commit is reported as success)")
			} else {
				// stored on the non-nil edge of that same variable
				if isNil, known := g.ObjNilFact(st.Loc, obj); known && !isNil {
					ok = true
				}
				c.Check("C09-R7", f.Key()+" store:blobUpload.err#"+itoa(nSt)+" on its failure edge", c.Pos(a), ok, "an early b.err store must be on the non-nil edge of the stored variable")
			}
		}
		c.Expect("C09-R7", "stores to blobUpload.err", nSt, 4)
		// done = true only once, after the commit loop
		nDone := 0
		for _, st := range g.Find(func(n ast.Node) bool {
			a, ok := n.(*ast.AssignStmt)
			return ok && len(a.Lhs) == 1 && core.FieldVar(sinfo, a.Lhs[0]) == fDone
		}) {
			nDone++
			ok := len(commits) == 1 && g.Reaches(commits[0].Loc, st.Loc) && !g.Reaches(st.Loc, commits[0].Loc)
			c.Check("C09-R7", f.Key()+" done only after the commit request", c.Pos(st.Node), ok, "")
		}
		c.Expect("C09-R7", "stores to blobUpload.done in Run", nDone, 1)
	}
	if f := c.Fn("C09-R7", "server", "blobUpload.Wait"); f != nil {
		sinfo := c.P.Pkgs["server"].TypesInfo
		g := c.G(f)
		fErr := c.P.LookupField("server", "blobUpload", "err")
		ok := false
		for _, ex := range g.Returns() {
			if ex.Return != nil && len(ex.Return.Results) == 1 && core.FieldVar(sinfo, ex.Return.Results[0]) == fErr {
				ok = true
			}
		}
		c.Check("C09-R7", f.Key()+" returns the recorded error", c.Pos(f.Decl), ok, "Wait must return b.err")
	}
	if f := c.Fn("C09-R7", "server", "uploadBlob"); f != nil {
		sinfo := c.P.Pkgs["server"].TypesInfo
		g := c.G(f)
		ok := false
		for _, ex := range g.Returns() {
			if ex.Return != nil && len(ex.Return.Results) == 1 && len(core.CallsTo(sinfo, g.ReturnedExpr(ex, 0), false, "server.blobUpload.Wait")) == 1 {
				ok = true
			}
		}
		c.Check("C09-R7", f.Key()+" returns the upload's result", c.Pos(f.Decl), ok, "uploadBlob must return upload.Wait(...)")
	}

	// ------------------------------------------------------------ R5 offset writers on size-trusted paths
	c.Rule("C09-R5", "a final cache path whose presence at the expected size is trusted (Pull's c.Get shortcut, Chunked's pre-validated branch, copyNamedFile) must only be filled sequentially from offset 0 by a hash-checked writer: no offset writers on a final blob path")
	binfo := c.P.Pkgs[blobPkg].TypesInfo
	nOff := 0
	for _, fn := range c.P.FuncsOf(blobPkg) {
		for _, call := range core.Calls(fn.Body, true) {
			switch core.CalleeName(binfo, call) {
			case "io.NewOffsetWriter", "os.File.WriteAt", "os.File.Seek":
				nOff++
				c.Check("C09-R5", fn.Key()+" offset-write:final-blob", c.Pos(call), false, "writes at an offset into the final blob path make a partially filled file full-length; the next attempt (handlePull retry / next pull) sees Size == expected and skips the layer")
			}
		}
	}
	c.Count("C09-R5 offset writers", nOff)

	// ------------------------------------------------------------ R6 retry loop
	c.Rule("C09-R6", "handlePull: Pull is retried only on the canRetry edge and its last error is what the handler reports; 'success' is emitted only on the nil edge")
	if f := c.Fn("C09-R6", regSrvPkg, "Local.handlePull"); f != nil {
		rinfo := c.P.Pkgs[regSrvPkg].TypesInfo
		pulls := 0
		for _, fn := range append([]*core.Func{f}, f.Lits()...) {
			g := c.G(fn)
			for _, h := range g.FindCalls(regPkg + ".Registry.Pull") {
				pulls++
				ev := core.ResultVar(rinfo, h.Top, h.Node.(*ast.CallExpr), 0)
				if ev == nil {
					c.Violation("C09-R6", fn.Key()+" Pull result kept", c.Pos(h.Node), "the error of Pull is dropped")
					continue
				}
				// every `continue` after the call is on the true edge of canRetry(err)
				for _, br := range g.Find(func(n ast.Node) bool { b, ok := n.(*ast.BranchStmt); return ok && b.Tok == token.CONTINUE }) {
					if !g.Dominates(h.Loc, br.Loc) {
						continue
					}
					ok := false
					for _, a := range g.AtomsAt(br.Loc) {
						if cc, isC := ast.Unparen(a.Expr).(*ast.CallExpr); isC && a.Val && core.CalleeName(rinfo, cc) == regSrvPkg+".canRetry" && core.UsesObj(rinfo, cc.Args[0], ev) {
							ok = true
						}
					}
					c.Check("C09-R6", fn.Key()+" retry only on canRetry", c.Pos(br.Node), ok, "Pull may be retried only when canRetry(err) holds for its own error")
				}
				// the retry loop is left only by returns: a break hands control to whatever follows the
				// loop, where Pull's error is no longer the answer
				if loop := loopAround(fn, h.Node); loop != nil {
					for _, br := range g.Find(func(n ast.Node) bool {
						b, ok := n.(*ast.BranchStmt)
						return ok && (b.Tok == token.BREAK || b.Tok == token.GOTO)
					}) {
						if within(loop, br.Node) && core.BranchTarget(fn.Body, br.Node.(*ast.BranchStmt)) == loop {
							c.Check("C09-R6", fn.Key()+" retry loop left only by returning", c.Pos(br.Node), false, "a break out of the retry loop reaches the code after it, which does not report the last Pull error")
						}
					}
				}
				// returns after the call: return that error (or a non-nil error when err != nil)
				for _, ex := range g.Returns() {
					if !g.Dominates(h.Loc, ex.Loc) || ex.Return == nil {
						continue
					}
					k := g.ReturnKind(ex)
					usesErr := len(ex.Return.Results) > 0 && core.UsesObj(rinfo, ex.Return.Results[len(ex.Return.Results)-1], ev)
					ok := usesErr || k == core.RetError
					if k == core.RetSuccess {
						if isNil, known := g.ObjNilFact(ex.Loc, ev); known && isNil {
							ok = true
						}
					}
					c.Check("C09-R6", fn.Key()+" Pull error reported", c.Pos(ex.Return), ok, "after Pull returned, the handler must return Pull's error (nil only when it is nil)")
				}
			}
		}
		c.Expect("C09-R6", "Pull calls in handlePull", pulls, 2)
		// canRetry(nil) is false
		if cr := c.Fn("C09-R6", regSrvPkg, "canRetry"); cr != nil {
			g := c.G(cr)
			ok := false
			for _, ex := range g.Returns() {
				if len(ex.Return.Results) == 1 {
					if id, isID := ex.Return.Results[0].(*ast.Ident); isID && id.Name == "false" {
						if isNil, known := g.ObjNilFact(ex.Loc, paramAt(cr, 0)); known && isNil {
							ok = true
						}
					}
				}
			}
			c.Check("C09-R6", cr.Key()+" nil is not retried", c.Pos(cr.Decl), ok, "canRetry(nil) must be false, otherwise a successful pull loops")
		}
	}
}

func selName(e ast.Expr) string {
	if se, ok := ast.Unparen(e).(*ast.SelectorExpr); ok {
		return se.Sel.Name
	}
	return ""
}

// derivesFromMethod: e is a call to method (ObjName) or a variable assigned from one.
func derivesFromMethod(g *core.Graph, e ast.Expr, method string) bool {
	if len(core.CallsTo(g.Info, e, false, method)) > 0 {
		return true
	}
	if id, ok := ast.Unparen(e).(*ast.Ident); ok {
		if o := g.Info.Uses[id]; o != nil {
			as := g.AssignsTo(o)
			for _, a := range as {
				if len(core.CallsTo(g.Info, a.Node, false, method)) == 0 {
					return false
				}
			}
			return len(as) > 0
		}
	}
	return false
}

// accumulatesField: e is a variable that is only ever advanced by `+= x.<field>`.
func accumulatesField(g *core.Graph, e ast.Expr, field string) bool {
	id, ok := ast.Unparen(e).(*ast.Ident)
	if !ok {
		return false
	}
	o := g.Info.Uses[id]
	if o == nil {
		return false
	}
	n := 0
	for _, a := range g.AssignsTo(o) {
		switch s := a.Node.(type) {
		case *ast.AssignStmt:
			if s.Tok == token.ADD_ASSIGN && selName(s.Rhs[0]) == field {
				n++
				continue
			}
			return false
		case *ast.ValueSpec:
			if len(s.Values) == 0 {
				continue
			}
			return false
		default:
			return false
		}
	}
	return n > 0
}

// listLoop is a loop over all elements of a slice variable, in any of the three spellings
// `for _, v := range L`, `for i := range L` and `for i := 0; i < len(L); i++`.
type listLoop struct {
	List     types.Object
	ListType types.Type
	Body     *ast.BlockStmt
	Stmt     ast.Stmt
	IsElem   func(e ast.Expr) bool // e denotes the current element (v, L[i], or a local initialised with L[i])
}

func listLoops(info *types.Info, root ast.Node) []listLoop {
	var out []listLoop
	mk := func(list types.Object, lt types.Type, body *ast.BlockStmt, st ast.Stmt, val, idx types.Object) {
		// locals of the body initialised with L[idx]
		alias := map[types.Object]bool{}
		if idx != nil {
			for _, s := range body.List {
				if as, ok := s.(*ast.AssignStmt); ok && as.Tok == token.DEFINE && len(as.Lhs) == 1 && len(as.Rhs) == 1 {
					if ix, isIx := ast.Unparen(as.Rhs[0]).(*ast.IndexExpr); isIx && isIdentOf(info, ix.X, list) && isIdentOf(info, ix.Index, idx) {
						alias[info.ObjectOf(as.Lhs[0].(*ast.Ident))] = true
					}
				}
			}
		}
		out = append(out, listLoop{List: list, ListType: lt, Body: body, Stmt: st, IsElem: func(e ast.Expr) bool {
			e = ast.Unparen(e)
			if id, ok := e.(*ast.Ident); ok {
				o := info.Uses[id]
				return o != nil && (o == val || alias[o])
			}
			if ix, ok := e.(*ast.IndexExpr); ok && idx != nil {
				return isIdentOf(info, ix.X, list) && isIdentOf(info, ix.Index, idx)
			}
			return false
		}})
	}
	ast.Inspect(root, func(n ast.Node) bool {
		switch x := n.(type) {
		case *ast.RangeStmt:
			p := core.PathOf(info, x.X)
			if !p.Valid() || len(p.Fields) != 0 {
				return true
			}
			var val, idx types.Object
			if id, ok := x.Value.(*ast.Ident); ok {
				val = info.Defs[id]
			}
			if id, ok := x.Key.(*ast.Ident); ok {
				idx = info.Defs[id]
			}
			mk(p.Root, info.TypeOf(x.X), x.Body, x, val, idx)
		case *ast.ForStmt:
			// for i := 0; i < len(L); i++
			init, ok1 := x.Init.(*ast.AssignStmt)
			cond, ok2 := x.Cond.(*ast.BinaryExpr)
			post, ok3 := x.Post.(*ast.IncDecStmt)
			if !ok1 || !ok2 || !ok3 || len(init.Lhs) != 1 || post.Tok != token.INC {
				return true
			}
			iv := info.ObjectOf(init.Lhs[0].(*ast.Ident))
			if v, isC := core.ConstInt(info, init.Rhs[0]); !isC || v != 0 || !isIdentOf(info, post.X, iv) {
				return true
			}
			_, y, op, okO := core.Orient(cond, func(e ast.Expr) bool { return isIdentOf(info, e, iv) })
			if !okO || op != token.LSS {
				return true
			}
			call, isC := ast.Unparen(y).(*ast.CallExpr)
			if !isC || core.CalleeName(info, call) != "builtin.len" {
				return true
			}
			p := core.PathOf(info, call.Args[0])
			if !p.Valid() || len(p.Fields) != 0 {
				return true
			}
			mk(p.Root, info.TypeOf(call.Args[0]), x.Body, x, nil, iv)
		}
		return true
	})
	return out
}

package props

import (
	"go/ast"
	"go/token"
	"go/types"
	"sort"

	"verifcheck/core"
)

func init() {
	register(&Prop{ID: "C02", Pkgs: []string{"server"}, Run: runC02})
}

// auditedChanOps: closed inventory of the operations on the scheduler's channels
// (DESIGN Appendix A.1): "<field> <send|recv> <function>" -> count.
var auditedChanOps = map[string]int{
	"successCh send LlmRequest.useLoadedRunner":     1,
	"successCh send Scheduler.load":                 1,
	"successCh recv Server.scheduleRunner":          0, // received through the returned channel (local variable), see R4
	"errCh send Scheduler.GetRunner":                1,
	"errCh send Scheduler.processPending":           1,
	"errCh send Scheduler.load":                     2,
	"pendingReqCh send Scheduler.GetRunner":         1,
	"pendingReqCh send Scheduler.processPending":    1,
	"pendingReqCh recv Scheduler.processPending":    1,
	"expiredCh send Scheduler.processPending":       1,
	"expiredCh send Scheduler.processCompleted":     3,
	"expiredCh send Scheduler.load":                 1,
	"expiredCh send Scheduler.expireRunner":         1,
	"expiredCh recv Scheduler.processCompleted":     1,
	"finishedReqCh send LlmRequest.useLoadedRunner": 1,
	"finishedReqCh send Scheduler.load":             1,
	"finishedReqCh recv Scheduler.processCompleted": 1,
	"unloadedCh send Scheduler.processCompleted":    1,
	"unloadedCh recv Scheduler.processPending":      2,
}

func rootName(f *core.Func) string {
	for f.Parent != nil {
		f = f.Parent
	}
	return f.Name
}

// isDisposition classifies a CFG node of processPending's placement loop.
func (m *schedModel) dispositions(fn *core.Func, n ast.Node) int {
	k := 0
	switch st := n.(type) {
	case *ast.GoStmt:
		// the delayed re-enqueue goroutine
		if l, ok := ast.Unparen(st.Call.Fun).(*ast.FuncLit); ok {
			ast.Inspect(l.Body, func(x ast.Node) bool {
				if ss, ok := x.(*ast.SendStmt); ok && m.chanFieldOf(ss.Chan, m.lc.byLit[l]) == m.fPending {
					k++
				}
				return true
			})
		}
		return k
	}
	core.InspectShallow(n, func(x ast.Node) bool {
		switch y := x.(type) {
		case *ast.CallExpr:
			switch o := core.Callee(m.info, y).(type) {
			case *types.Func:
				if core.ObjName(o) == "server.LlmRequest.useLoadedRunner" {
					k++
				}
			case *types.Var:
				if o == m.fLoadFn {
					k++
				}
			}
		case *ast.SendStmt:
			if m.chanFieldOf(y.Chan, fn) == m.fErrCh {
				k++
			}
		}
		return true
	})
	return k
}

func runC02(c *Ctx) {
	m := newSchedModel(c, "C02-R1")
	info := m.info

	// ------------------------------------------------------------------ R1
	c.Rule("C02-R1", "one disposition per placement attempt: in processPending's placement loop every exit towards the next dequeue has performed exactly one of {useLoadedRunner, loadFn, error reply, delayed re-enqueue}, every retry edge none, and the only return is the shutdown arm")
	if f := m.lc.fn("Scheduler.processPending"); f != nil {
		g := c.G(f)
		// the placement loop: the bare for{} that contains the loadFn calls
		var loop *ast.ForStmt
		core.InspectShallow(f.Body, func(n ast.Node) bool {
			if fs, ok := n.(*ast.ForStmt); ok && fs.Cond == nil && fs.Init == nil {
				has := false
				core.InspectShallow(fs.Body, func(x ast.Node) bool {
					if call, ok := x.(*ast.CallExpr); ok && core.Callee(info, call) == types.Object(m.fLoadFn) {
						has = true
					}
					return true
				})
				if has && (loop == nil || within(loop, fs)) {
					loop = fs
				}
			}
			return true
		})
		if loop == nil || len(loop.Body.List) == 0 {
			c.Undecided("C02-R1", "anchor:placement loop", "-", "anchor lost: bare for loop with loadFn calls in processPending")
		} else {
			head := g.Locate(loop.Body.List[0])
			start := core.Loc{B: head.B, I: -1}
			first := true
			before, exits := g.CountPathsIn(start, func(n ast.Node) int { return m.dispositions(f, n) },
				func(n ast.Node, l core.Loc) bool {
					if br, ok := n.(*ast.BranchStmt); ok && core.BranchTarget(f.Body, br) == ast.Stmt(loop) {
						return true
					}
					if l.B == head.B && l.I == 0 {
						if first {
							first = false
							return false
						}
						return true // fell through to the loop head again (implicit retry)
					}
					return false
				}, core.InStmt(loop))
			_ = before
			nBreak, nCont, nRet := 0, 0, 0
			type ex struct {
				loc  core.Loc
				mask uint8
			}
			var list []ex
			for l, mk := range exits {
				list = append(list, ex{l, mk})
			}
			sort.Slice(list, func(i, j int) bool {
				return list[i].loc.B.Index < list[j].loc.B.Index || (list[i].loc.B.Index == list[j].loc.B.Index && list[i].loc.I < list[j].loc.I)
			})
			for _, e := range list {
				ns := g.Nodes(e.loc.B)
				if e.loc.I < 0 || e.loc.I >= len(ns) {
					// left the loop region without break (should not happen for a bare for)
					c.Check("C02-R1", f.Key()+" placement loop left only by break/return", "-", false, "control leaves the placement loop by an unexpected edge")
					continue
				}
				node := ns[e.loc.I]
				switch x := node.(type) {
				case *ast.BranchStmt:
					if x.Tok == token.BREAK {
						nBreak++
						c.Check("C02-R1", f.Key()+" exit:break#"+itoa(nBreak)+" exactly one disposition", c.Pos(x), e.mask == 2, "possible disposition counts on paths to this exit (bit0=0, bit1=1, bit2=2+): "+itoa(int(e.mask)))
					} else {
						nCont++
						// useLoadedRunner hands the runner out only where it reports true (fix e71b9cc81): on the
						// false edge of a test of its result the one counted call disposed of nothing
						want := uint8(1)
						for _, a := range g.AtomsAt(e.loc) {
							ae := ast.Unparen(a.Expr)
							if id, isId := ae.(*ast.Ident); isId { // handedOut := pending.useLoadedRunner(…)
								if v, isV := info.Uses[id].(*types.Var); isV {
									if rhs, _, cnt := singleDef(info, f.Body, v); cnt == 1 && rhs != nil {
										ae = ast.Unparen(rhs)
									}
								}
							}
							if call, isC := ae.(*ast.CallExpr); isC && !a.Val && core.CalleeName(info, call) == "server.LlmRequest.useLoadedRunner" {
								if bf := m.lc.fn("LlmRequest.useLoadedRunner"); bf != nil && handsOutOnlyWhenTrue(c, m, bf) {
									want = 2
								}
							}
						}
						c.Check("C02-R1", f.Key()+" retry:continue#"+itoa(nCont)+" no disposition", c.Pos(x), e.mask == want, "a retry edge must not have replied or placed the request; mask "+itoa(int(e.mask)))
					}
				case *ast.ReturnStmt:
					nRet++
					ok := false
					// inside a select clause whose comm receives from ctx.Done()
					core.InspectShallow(loop, func(y ast.Node) bool {
						if cc, isCC := y.(*ast.CommClause); isCC && cc.Comm != nil && within(cc, x) && len(core.CallsTo(info, cc.Comm, false, "context.Context.Done")) == 1 {
							ok = true
						}
						return true
					})
					c.Check("C02-R1", f.Key()+" return only on shutdown", c.Pos(x), ok, "the placement loop may return only in the ctx.Done() arm")
				default:
					nCont++
					c.Check("C02-R1", f.Key()+" retry:fallthrough no disposition", c.Pos(node), e.mask == 1, "falling through to the loop head is a retry and must not have disposed of the request; mask "+itoa(int(e.mask)))
				}
			}
			c.Expect("C02-R1", "disposing exits of the placement loop", nBreak, 7)
			c.Expect("C02-R1", "retry edges of the placement loop", nCont, 2)
			c.Expect("C02-R1", "shutdown returns of the placement loop", nRet, 1)
		}
		// the one zero-reply skip: a cancelled request
		for _, br := range g.Find(func(n ast.Node) bool {
			b, ok := n.(*ast.BranchStmt)
			return ok && b.Tok == token.CONTINUE && (loop == nil || !within(loop, b))
		}) {
			ok := false
			for _, a := range g.AtomsAt(br.Loc) {
				if x, eq, isNil := core.IsNilCheck(info, a.Expr); isNil && eq != a.Val && len(core.CallsTo(info, x, false, "context.Context.Err")) == 1 {
					ok = true
				}
			}
			c.Check("C02-R1", f.Key()+" dequeued request dropped only when already cancelled", c.Pos(br.Node), ok, "a dequeued request may be skipped without reply only on the non-nil edge of pending.ctx.Err()")
		}
	}

	// ------------------------------------------------------------------ R2
	c.Rule("C02-R2", "one reply per load: over Scheduler.load and its goroutine every terminating path performs exactly one send on the request's errCh or successCh")
	if f := m.lc.fn("Scheduler.load"); f != nil {
		reply := func(fn *core.Func) func(n ast.Node) int {
			return func(n ast.Node) int {
				k := 0
				if gs, ok := n.(*ast.GoStmt); ok {
					if l, ok := ast.Unparen(gs.Call.Fun).(*ast.FuncLit); ok {
						lf := m.lc.byLit[l]
						lg := c.G(lf)
						_, ex := lg.CountPaths(lg.Entry(), func(x ast.Node) int {
							kk := 0
							core.InspectShallow(x, func(y ast.Node) bool {
								if ss, ok := y.(*ast.SendStmt); ok {
									if cf := m.chanFieldOf(ss.Chan, lf); cf == m.fErrCh || cf == m.fSuccessCh {
										kk++
									}
								}
								return true
							})
							return kk
						}, nil)
						all1 := len(ex) > 0
						for loc, mk := range ex {
							pos := "end of closure"
							if loc.I < len(lg.Nodes(loc.B)) {
								pos = c.Pos(lg.Nodes(loc.B)[loc.I])
							}
							c.Check("C02-R2", lf.Key()+" exit: exactly one reply", pos, mk == 2, "possible reply counts (bit1 = exactly one): "+itoa(int(mk)))
							if mk != 2 {
								all1 = false
							}
						}
						if all1 {
							return 1
						}
						return 0
					}
				}
				core.InspectShallow(n, func(y ast.Node) bool {
					if ss, ok := y.(*ast.SendStmt); ok {
						if cf := m.chanFieldOf(ss.Chan, fn); cf == m.fErrCh || cf == m.fSuccessCh {
							k++
						}
					}
					return true
				})
				return k
			}
		}
		g := c.G(f)
		_, ex := g.CountPaths(g.Entry(), reply(f), nil)
		n := 0
		for loc, mk := range ex {
			n++
			pos := "end of function"
			if loc.I < len(g.Nodes(loc.B)) {
				pos = c.Pos(g.Nodes(loc.B)[loc.I])
			}
			c.Check("C02-R2", f.Key()+" exit at "+exitKind(g, loc)+": exactly one reply (a started goroutine counts as its own single reply)", pos, mk == 2, "possible reply counts: "+itoa(int(mk)))
		}
		c.Expect("C02-R2", "exits of load", n, 2)
	}

	// ------------------------------------------------------------------ R3
	c.Rule("C02-R3", "GetRunner never blocks its caller: the enqueue is a select arm with a default arm that replies ErrMaxQueue on errCh, and errCh has capacity >= 1")
	if f := m.lc.fn("Scheduler.GetRunner"); f != nil {
		n := 0
		for _, op := range m.opsOn(m.fPending, true) {
			if op.Fn != f {
				continue
			}
			n++
			ok := op.InSelect != nil && op.HasDeflt
			okReply := false
			if ok {
				for _, cl := range op.InSelect.Body.List {
					cc := cl.(*ast.CommClause)
					if cc.Comm != nil {
						continue
					}
					for _, st := range cc.Body {
						if ss, isS := st.(*ast.SendStmt); isS && m.chanFieldOf(ss.Chan, f) == m.fErrCh {
							if id, isID := ast.Unparen(ss.Value).(*ast.Ident); isID && id.Name == "ErrMaxQueue" {
								okReply = true
							}
						}
					}
				}
			}
			c.Check("C02-R3", f.Key()+" enqueue is non-blocking with busy reply", c.Pos(op.Node), ok && okReply, "send on pendingReqCh must be a select arm with a default arm sending ErrMaxQueue on errCh")
		}
		c.Expect("C02-R3", "enqueue sites in GetRunner", n, 1)
		// capacity of errCh / successCh at construction
		for _, st := range m.fieldStores(m.fErrCh) {
			if !st.Lit {
				continue
			}
			kv := st.Node.(*ast.KeyValueExpr)
			ok := false
			if call, isC := ast.Unparen(kv.Value).(*ast.CallExpr); isC && core.CalleeName(info, call) == "builtin.make" && len(call.Args) == 2 {
				if v, isConst := core.ConstInt(info, call.Args[1]); isConst && v >= 1 {
					ok = true
				}
			}
			c.Check("C02-R3", st.Fn.Key()+" errCh buffered", c.Pos(kv), ok, "errCh must be created with a constant capacity >= 1 so that a reply never blocks the scheduler")
		}
	}

	// ------------------------------------------------------------------ R4
	c.Rule("C02-R4", "callers never abandon a request: every caller of GetRunner receives from both returned channels in one select without default, timeout or cancellation arm (the scheduler's unbuffered hand-out send is made under refMu and would otherwise block for ever)")
	if f := m.lc.fn("Scheduler.GetRunner"); f != nil {
		c.Check("C02-R4", f.Key()+" not used as a value", c.Pos(f.Decl), !m.lc.esc[f], "GetRunner escapes as a value")
		c.Expect("C02-R4", "callers of GetRunner", len(m.lc.sites[f]), 1)
		for _, s := range m.lc.sites[f] {
			cg := c.G(s.caller)
			loc := cg.Locate(s.call)
			top := cg.Nodes(loc.B)[loc.I]
			rv := core.ResultVar(info, top, s.call, 0)
			ev := core.ResultVar(info, top, s.call, 1)
			ok := false
			core.InspectShallow(s.caller.Body, func(n ast.Node) bool {
				sel, isSel := n.(*ast.SelectStmt)
				if !isSel || len(sel.Body.List) != 2 {
					return true
				}
				gotR, gotE := false, false
				for _, cl := range sel.Body.List {
					cc := cl.(*ast.CommClause)
					if cc.Comm == nil {
						return true
					}
					if rv != nil && core.UsesObj(info, cc.Comm, rv) {
						gotR = true
					}
					if ev != nil && core.UsesObj(info, cc.Comm, ev) {
						gotE = true
					}
				}
				if gotR && gotE && cg.Dominates(loc, cg.Locate(sel.Body.List[0].(*ast.CommClause).Comm)) == false {
					// select comm statements live in the case bodies; use reachability instead
				}
				if gotR && gotE {
					ok = true
				}
				return true
			})
			c.Check("C02-R4", s.caller.Key()+" waits for exactly the two reply channels", c.Pos(s.call), ok, "the caller must select on both channels returned by GetRunner and nothing else")
		}
	}

	// ------------------------------------------------------------------ R5 / R9
	c.Rule("C02-R5", "unload event ordering: the send on unloadedCh is dominated by unload() and by the removal step, is made with no scheduler lock held, and exactly once on every expiry that was not re-queued")
	c.Rule("C02-R9", "removal from the loaded map in the unload path is by identity: delete(s.loaded, k) only on the true edge of s.loaded[k] == <the runner being unloaded>")
	if f := m.lc.fn("Scheduler.processCompleted"); f != nil {
		g := c.G(f)
		sends := []chanOp{}
		for _, op := range m.opsOn(m.fUnloaded, true) {
			if op.Fn == f {
				sends = append(sends, op)
			}
		}
		c.Expect("C02-R5", "sends on unloadedCh", len(sends), 1)
		unl := g.FindCalls("server.runnerRef.unload")
		var dels []core.Hit
		for _, d := range g.FindCalls("builtin.delete") {
			if core.FieldVar(info, d.Node.(*ast.CallExpr).Args[0]) == m.fLoaded {
				dels = append(dels, d)
			}
		}
		c.Expect("C02-R9", "delete(s.loaded, ...) in processCompleted", len(dels), 1)
		for _, s := range sends {
			loc := g.Locate(s.Node)
			okU := g.DominatingHit(unl, loc) != nil
			// removal step: the delete, or the if that guards it
			okD := false
			for _, d := range dels {
				if g.Dominates(d.Loc, loc) {
					okD = true
				}
				for _, fct := range g.Facts(d.Loc) {
					if g.Dominates(g.CondLoc(fct.Blk), loc) && g.DominatingHit(unl, g.CondLoc(fct.Blk)) != nil {
						okD = true
					}
				}
				if g.Reaches(loc, d.Loc) && !g.Dominates(d.Loc, loc) && !okD {
					okD = false
				}
			}
			held := m.lc.flow[f].Before[loc]
			c.Check("C02-R5", f.Key()+" send:unloadedCh after unload and removal", c.Pos(s.Node), okU && okD, "the unload event must come after the runner was closed and the map updated")
			c.Check("C02-R5", f.Key()+" send:unloadedCh with no lock held", c.Pos(s.Node), len(held) == 0, "held: "+joinNames(held))
			c.Check("C02-R5", f.Key()+" send:unloadedCh is a plain blocking send", c.Pos(s.Node), s.InSelect == nil, "an unload event must not be droppable")
		}
		// exactly one unload event per expiry branch pass that unloaded
		for _, op := range m.opsOn(m.fExpired, false) {
			if op.Fn != f || op.InSelect == nil {
				continue
			}
			var clause *ast.CommClause
			for _, cl := range op.InSelect.Body.List {
				if cc := cl.(*ast.CommClause); cc.Comm != nil && within(cc.Comm, op.Node) {
					clause = cc
				}
			}
			if clause == nil {
				continue
			}
			start := g.Locate(clause.Comm)
			_, exU := g.CountPathsIn(start, func(n ast.Node) int {
				k := 0
				core.InspectShallow(n, func(x ast.Node) bool {
					if ss, ok := x.(*ast.SendStmt); ok && m.chanFieldOf(ss.Chan, f) == m.fUnloaded {
						k++
					}
					return true
				})
				return k
			}, func(n ast.Node, l core.Loc) bool { _, isBr := n.(*ast.BranchStmt); return isBr && within(clause, n) }, core.InStmt(clause))
			_, exC := g.CountPathsIn(start, func(n ast.Node) int { return len(core.CallsTo(info, n, false, "server.runnerRef.unload")) },
				func(n ast.Node, l core.Loc) bool { _, isBr := n.(*ast.BranchStmt); return isBr && within(clause, n) }, core.InStmt(clause))
			// paired: counting both kinds together no path has exactly one of them (an unload without its event,
			// or an event without an unload), and neither happens twice on a path
			_, exB := g.CountPathsIn(start, func(n ast.Node) int {
				k := len(core.CallsTo(info, n, false, "server.runnerRef.unload"))
				core.InspectShallow(n, func(x ast.Node) bool {
					if ss, ok := x.(*ast.SendStmt); ok && m.chanFieldOf(ss.Chan, f) == m.fUnloaded {
						k++
					}
					return true
				})
				return k
			}, func(n ast.Node, l core.Loc) bool { _, isBr := n.(*ast.BranchStmt); return isBr && within(clause, n) }, core.InStmt(clause))
			some := false
			for l, mu := range exU {
				same := mu == exC[l] && (mu == 1 || mu == 2)
				paired := mu&4 == 0 && exC[l]&4 == 0 && exB[l]&2 == 0
				if exB[l]&4 != 0 {
					some = true
				}
				c.Check("C02-R5", f.Key()+" expiry branch: unload events == unloads on every path", "exit of the expiry branch", same || paired, "masks: events="+itoa(int(mu))+" unloads="+itoa(int(exC[l]))+" both="+itoa(int(exB[l])))
			}
			c.Check("C02-R5", f.Key()+" expiry branch: some path unloads and reports it", c.Pos(clause), some, "no path through the expiry branch both unloads the runner and posts the unload event")
		}
		ruleDeleteByIdentity(c, m, "C02-R9")
	}

	// ------------------------------------------------------------------ R6
	c.Rule("C02-R6", "idle runners get an expiry: in the finish branch every path through the refCount-is-zero region posts on expiredCh, arms a timer whose callback posts on expiredCh, or resets the existing timer")
	if f := m.lc.fn("Scheduler.processCompleted"); f != nil {
		g := c.G(f)
		n := 0
		for _, cb := range g.CondBlocks() {
			be, ok := ast.Unparen(cb.Cond).(*ast.BinaryExpr)
			if !ok || core.FieldVar(info, be.X) != m.fRefCount {
				continue
			}
			// which edge means "nobody uses the runner": refCount <= 0 / == 0 / < 1 true, refCount > 0 / != 0 / >= 1 false
			idle := -1
			if v, isC := core.ConstInt(info, be.Y); isC {
				switch {
				case (be.Op == token.LEQ || be.Op == token.EQL) && v == 0, be.Op == token.LSS && v == 1:
					idle = 0
				case (be.Op == token.GTR || be.Op == token.NEQ) && v == 0, be.Op == token.GEQ && v == 1:
					idle = 1
				}
			}
			if idle < 0 || len(cb.B.Succs) != 2 {
				continue
			}
			// only the one in the finish branch (dominated by a refCount--)
			decDom := false
			for _, st := range m.fieldStores(m.fRefCount) {
				if st.Fn == f && st.Tok == token.DEC && g.Dominates(g.Locate(st.Node), g.CondLoc(cb.B)) {
					decDom = true
				}
			}
			if !decDom {
				continue
			}
			n++
			// the region: the if / switch statement the test belongs to
			var ifStmt ast.Node = cb.B.Succs[0].Stmt
			ast.Inspect(f.Body, func(x ast.Node) bool {
				switch y := x.(type) {
				case *ast.IfStmt:
					if within(y.Cond, cb.Cond) {
						ifStmt = y
					}
				case *ast.SwitchStmt:
					if within(y, cb.Cond) && y.Tag == nil {
						for _, cl := range y.Body.List {
							for _, ce := range cl.(*ast.CaseClause).List {
								if within(ce, cb.Cond) {
									ifStmt = y
								}
							}
						}
					}
				}
				return true
			})
			_, ex := g.CountPathsIn(core.StartOf(cb.B.Succs[idle]), func(nd ast.Node) int {
				k := 0
				core.InspectShallow(nd, func(x ast.Node) bool {
					switch y := x.(type) {
					case *ast.SendStmt:
						if m.chanFieldOf(y.Chan, f) == m.fExpired {
							k++
						}
					case *ast.CallExpr:
						switch core.CalleeName(info, y) {
						case "time.AfterFunc":
							if l, isL := ast.Unparen(y.Args[1]).(*ast.FuncLit); isL {
								posts := false
								ast.Inspect(l.Body, func(z ast.Node) bool {
									if ss, ok := z.(*ast.SendStmt); ok && m.chanFieldOf(ss.Chan, m.lc.byLit[l]) == m.fExpired {
										posts = true
									}
									return true
								})
								if posts {
									k++
								}
							}
						case "time.Timer.Reset":
							if core.FieldVar(info, y.Fun.(*ast.SelectorExpr).X) == m.fExpireTimer {
								k++
							}
						}
					}
					return true
				})
				return k
			}, nil, core.InStmt(ifStmt))
			for _, mk := range ex {
				c.Check("C02-R6", f.Key()+" idle runner gets exactly one expiry mechanism", c.Pos(cb.Cond), mk == 2, "possible counts of {post, armed timer, reset} on a path through the idle region (bit1 = exactly one): "+itoa(int(mk)))
			}
		}
		c.Expect("C02-R6", "refCount<=0 regions in the finish branch", n, 1)
	}

	c.Rule("C02-R11", "a failed load drops its reference, reports the error and posts exactly one expiry (otherwise the half-loaded runner stays in the loaded map for ever and the scheduler never drains); a successful load hands out once and starts one finish poster")
	ruleLoadGoroutineBalanced(c, m, "C02-R11")

	// ------------------------------------------------------------------ R7
	c.Rule("C02-R7", "the lock-order graph over mutex classes of package server (edges: class held → class acquired, through in-package calls) is acyclic")
	lockOrder(c, m, "C02-R7")

	// ------------------------------------------------------------------ R8
	c.Rule("C02-R8", "no blocking send on a bounded scheduler event channel while holding a lock that the channel's sole consumer needs (once the channel is full the sender blocks holding the lock and the consumer blocks on the lock)")
	blockingSendsUnderLock(c, m, "C02-R8")

	// ------------------------------------------------------------------ R10
	c.Rule("C02-R10", "closed inventory of send/receive sites on the scheduler's channels (roles of the protocol): an additional sender or receiver — e.g. a drain loop that can swallow the unload event the pending loop waits for — must be classified")
	got := map[string]int{}
	pos := map[string]string{}
	for _, op := range m.ops {
		var name string
		switch op.Field {
		case m.fSuccessCh, m.fErrCh, m.fPending, m.fExpired, m.fFinished, m.fUnloaded:
			name = op.Field.Name()
		default:
			continue
		}
		kind := "recv"
		if op.Send {
			kind = "send"
		}
		k := name + " " + kind + " " + rootName(op.Fn)
		got[k]++
		if pos[k] == "" {
			pos[k] = c.Pos(op.Node)
		}
	}
	total := 0
	for _, k := range sortedKeys(got) {
		total += got[k]
		c.Check("C02-R10", "chan-op:"+k, pos[k], got[k] <= auditedChanOps[k], "found "+itoa(got[k])+" site(s), audited "+itoa(auditedChanOps[k]))
	}
	for _, k := range sortedKeys(auditedChanOps) {
		if auditedChanOps[k] > 0 && got[k] < auditedChanOps[k] {
			c.Check("C02-R10", "chan-op:"+k, "-", false, "audited site missing: found "+itoa(got[k])+", audited "+itoa(auditedChanOps[k])+" (a protocol role disappeared)")
		}
	}
	c.Expect("C02-R10", "channel operations inventoried", total, 20)
	// also: len()/cap() peeks and closes of these channels are not part of the protocol
	for _, fn := range m.lc.fns {
		for _, call := range core.Calls(fn.Body, false) {
			n := core.CalleeName(info, call)
			if (n == "builtin.len" || n == "builtin.cap" || n == "builtin.close") && len(call.Args) == 1 {
				switch core.FieldVar(info, call.Args[0]) {
				case m.fPending, m.fExpired, m.fFinished, m.fUnloaded:
					c.Check("C02-R10", fn.Key()+" "+n+"("+core.ExprString(call.Args[0])+")", c.Pos(call), false, "len/cap/close on a scheduler channel is not part of the audited protocol")
				}
			}
		}
	}
}

// lockOrder builds the class-level lock-order graph and reports cycles.
func lockOrder(c *Ctx, m *schedModel, rule string) {
	type edge struct{ from, to string }
	wit := map[edge]string{}
	// transitive acquires per function (classes)
	acq := map[*core.Func]map[string]string{}
	for _, fn := range m.lc.fns {
		acq[fn] = map[string]string{}
		for _, a := range m.lc.flow[fn].Acquires {
			acq[fn][a.Lock.ClassName()] = c.Pos(a.Call)
		}
	}
	for iter := 0; iter < 4; iter++ {
		for _, fn := range m.lc.fns {
			for _, call := range core.Calls(fn.Body, false) {
				for _, t := range m.lc.targets(m.info, call) {
					for k, v := range acq[t] {
						if _, ok := acq[fn][k]; !ok {
							acq[fn][k] = v + " via " + t.Name
						}
					}
				}
			}
			// synchronous literals (immediately invoked / deferred) run in this function
			for _, l := range m.lc.fns {
				if l.Parent == fn && l.Lit != nil {
					if u := core.UseOfLit(m.info, fn.Body, l.Lit); u.Kind == "call" || u.Kind == "defer" {
						for k, v := range acq[l] {
							if _, ok := acq[fn][k]; !ok {
								acq[fn][k] = v
							}
						}
					}
				}
			}
		}
	}
	nAcq := 0
	for _, fn := range m.lc.fns {
		flow := m.lc.flow[fn]
		for _, a := range flow.Acquires {
			nAcq++
			for _, h := range a.Held {
				if h.Key() == a.Lock.Key() {
					c.Check(rule, fn.Key()+" re-acquire "+a.Lock.Path.String(), c.Pos(a.Call), false, "lock acquired while already held (self-deadlock)")
					continue
				}
				e := edge{h.ClassName(), a.Lock.ClassName()}
				if _, ok := wit[e]; !ok {
					wit[e] = fn.Key() + " at " + c.Pos(a.Call)
				}
			}
		}
		for _, call := range core.Calls(fn.Body, false) {
			ts := m.lc.targets(m.info, call)
			if len(ts) == 0 || isGoOrDeferCall(fn, call) {
				continue
			}
			held := flow.HeldAt(call)
			for _, t := range ts {
				for k, v := range acq[t] {
					for _, h := range held {
						e := edge{h.ClassName(), k}
						if _, ok := wit[e]; !ok {
							wit[e] = fn.Key() + " calls " + t.Name + " at " + c.Pos(call) + " (acquired at " + v + ")"
						}
					}
				}
			}
		}
	}
	c.Expect(rule, "lock acquisitions in package server", nAcq, 15)
	// cycle detection (classes are few): DFS
	adj := map[string][]string{}
	var es []edge
	for e := range wit {
		es = append(es, e)
	}
	sort.Slice(es, func(i, j int) bool { return es[i].from+es[i].to < es[j].from+es[j].to })
	for _, e := range es {
		adj[e.from] = append(adj[e.from], e.to)
	}
	for _, e := range es {
		// is there a path e.to ->* e.from ?
		seen := map[string]bool{}
		var stack []string
		stack = append(stack, e.to)
		cyc := false
		for len(stack) > 0 {
			x := stack[len(stack)-1]
			stack = stack[:len(stack)-1]
			if x == e.from {
				cyc = true
				break
			}
			if seen[x] {
				continue
			}
			seen[x] = true
			stack = append(stack, adj[x]...)
		}
		if e.from == e.to {
			// two instances of one class nested: only a problem if the order is not fixed; report
			cyc = true
		}
		c.Check(rule, "lock-order edge "+e.from+" → "+e.to, wit[e], !cyc, "this edge lies on a cycle of the lock-order graph (witness: "+wit[e]+")")
	}
	c.Count(rule+" lock-order edges", len(es))
}

// blockingSendsUnderLock: C02-R8.
func blockingSendsUnderLock(c *Ctx, m *schedModel, rule string) {
	// consumer of each event channel and the lock classes it acquires
	events := []*types.Var{m.fExpired, m.fFinished, m.fUnloaded, m.fPending}
	n := 0
	for _, ch := range events {
		recvs := m.opsOn(ch, false)
		consumers := map[string]*core.Func{}
		for _, r := range recvs {
			root := r.Fn
			for root.Parent != nil {
				root = root.Parent
			}
			consumers[root.Name] = root
		}
		needs := map[string]bool{}
		for _, root := range consumers {
			for _, fn := range m.lc.fns {
				r := fn
				for r.Parent != nil {
					r = r.Parent
				}
				if r != root {
					continue
				}
				for _, a := range m.lc.flow[fn].Acquires {
					needs[a.Lock.ClassName()] = true
				}
			}
		}
		for _, s := range m.opsOn(ch, true) {
			if !s.blocking() {
				continue
			}
			held := m.lc.heldAt(s.Node)
			for _, h := range held {
				if needs[h.ClassName()] {
					n++
					c.Check(rule, s.Fn.Key()+" send:"+ch.Name()+" under "+h.ClassName(), c.Pos(s.Node), false,
						"blocking send on "+ch.Name()+" (capacity OLLAMA_MAX_QUEUE) while holding "+h.Path.String()+"; its sole consumer takes "+h.ClassName()+" in its loop: once the channel is full the scheduler stops for good")
				}
			}
		}
	}
	c.Count(rule+" blocking sends under a consumer's lock", n)
}

func exitKind(g *core.Graph, loc core.Loc) string {
	if loc.I >= 0 && loc.I < len(g.Nodes(loc.B)) {
		if r, ok := g.Nodes(loc.B)[loc.I].(*ast.ReturnStmt); ok {
			k := "return"
			for _, a := range g.AtomsAt(loc) {
				k += "[" + core.ExprString(a.Expr) + "=" + map[bool]string{true: "T", false: "F"}[a.Val] + "]"
			}
			_ = r
			return k
		}
	}
	return "end"
}

// handsOutOnlyWhenTrue: every return of f that reports false is reached without a send on successCh, and
// every return that reports true after one.
func handsOutOnlyWhenTrue(c *Ctx, m *schedModel, f *core.Func) bool {
	g := c.G(f)
	info := f.Info()
	_, exits := g.CountPaths(g.Entry(), func(n ast.Node) int {
		k := 0
		core.InspectShallow(n, func(x ast.Node) bool {
			if ss, ok := x.(*ast.SendStmt); ok && m.chanFieldOf(ss.Chan, f) == m.fSuccessCh {
				k++
			}
			return true
		})
		return k
	}, nil)
	ok := false
	for _, ex := range g.Returns() {
		if ex.Return == nil || len(ex.Return.Results) != 1 {
			return false
		}
		tv, has := info.Types[ex.Return.Results[0]]
		if !has || tv.Value == nil {
			return false
		}
		mask := exits[ex.Loc]
		switch tv.Value.String() {
		case "false":
			if mask != 1 {
				return false
			}
			ok = true
		case "true":
			if mask != 2 {
				return false
			}
		}
	}
	return ok
}

package props

import (
	"go/ast"
	"go/token"
	"go/types"
	"sort"
	"strings"

	"verifcheck/core"
)

func init() {
	prev := registry["C08"].Run
	registry["C08"].Run = func(c *Ctx) { prev(c); extraC08(c) }
	prev9 := registry["C09"].Run
	registry["C09"].Run = func(c *Ctx) { prev9(c); ruleCopySkipIsSameContent(c, "C09-R11") }
}

func extraC08(c *Ctx) {
	ruleCopySkipIsSameContent(c, "C08-R11")

	rule := "C08-R12"
	c.Rule(rule, "Resolve answers from the manifest file, every time: each success return of DiskCache.Resolve hands back either the digest parsed out of a name@digest argument or the digest readAndSum computed, in this call, of the file manifestPath(name) names — never a remembered value (manifests change behind the cache's back, and names are matched case-insensitively on disk, so a memo keyed by the spelling goes stale on a relink under another spelling)")
	if f := c.Fn(rule, blobPkg, "DiskCache.Resolve"); f != nil {
		info := f.Info()
		g := c.G(f)
		var pathVars, sumVars []types.Object
		for _, h := range g.FindCalls(blobPkg + ".DiskCache.manifestPath") {
			if o := core.ResultVar(info, h.Top, h.Node.(*ast.CallExpr), 0); o != nil {
				pathVars = append(pathVars, o)
			}
		}
		for _, h := range g.FindCalls(blobPkg + ".readAndSum") {
			call := h.Node.(*ast.CallExpr)
			for _, pv := range pathVars {
				if len(call.Args) > 0 && isIdentOf(info, call.Args[0], pv) {
					if o := core.ResultVar(info, h.Top, call, 1); o != nil {
						sumVars = append(sumVars, o)
					}
				}
			}
		}
		c.Expect(rule, "digest computed from the manifest file in Resolve", len(sumVars), 1)
		n := 0
		for _, ex := range g.Returns() {
			if g.ReturnKind(ex) != core.RetSuccess && g.ReturnKind(ex) != core.RetUnknown {
				continue
			}
			e := g.ReturnedExpr(ex, 0)
			if e == nil {
				continue
			}
			ok := false
			if call, isC := ast.Unparen(e).(*ast.CallExpr); isC && core.CalleeName(info, call) == blobPkg+".ParseDigest" {
				ok = true
			}
			for _, sv := range sumVars {
				if isIdentOf(info, e, sv) {
					ok = true
				}
			}
			if cl, isL := ast.Unparen(e).(*ast.CompositeLit); isL && len(cl.Elts) == 0 {
				continue // Digest{} next to an error
			}
			n++
			c.Check(rule, f.Key()+" answer#"+itoa(n), c.Pos(ex.Return), ok, "the digest returned must be ParseDigest(<digest part of the name>) or the sum of the manifest file read in this call, not `"+core.ExprString(e)+"`")
		}
		c.Expect(rule, "digest-returning exits of Resolve", n, 2)
	}

	rule = "C08-R13"
	c.Rule(rule, "closed inventory of removals in package blob: files are unlinked only by Import (its private temp file), Unlink (the manifest of the name) and copyNamedFile (after a failed Close of the file it just wrote); a blob's final path is otherwise never unlinked — a concurrent writer of the same digest may have it open, would finish into the orphaned inode and report a store that Get cannot find")
	audited := map[string]int{"DiskCache.Import": 1, "DiskCache.Unlink": 1, "DiskCache.copyNamedFile": 1}
	nrm := 0
	for _, fn := range c.P.FuncsOf(blobPkg) {
		if strings.HasSuffix(c.Pos(fn.Body), "_test.go") {
			continue
		}
		got, pos := 0, ""
		for _, call := range core.Calls(fn.Body, true) {
			if n, _ := fsEffect(fn.Info(), call); n == "os.Remove" || n == "os.RemoveAll" {
				got++
				nrm++
				if got > audited[fn.Name] && pos == "" {
					pos = c.Pos(call)
				}
			}
		}
		if got > 0 {
			c.Check(rule, fn.Key()+" removals", firstNonEmpty(pos, c.Pos(fn.Body)), got <= audited[fn.Name], "removal not in the audited inventory of this function (found "+itoa(got)+", audited "+itoa(audited[fn.Name])+")")
		}
	}
	c.Expect(rule, "removal sites in package blob", nrm, 3)
}

func firstNonEmpty(a, b string) string {
	if a != "" {
		return a
	}
	return b
}

// ruleCopySkipIsSameContent: copyNamedFile may report success without writing only when the
// file that is there is known to hold the wanted content. Size equality shows that only for a
// content-addressed name (the blob path of the digest); for a manifest link a file of the same
// size can be another manifest, and Link would succeed while the name keeps the old one.
func ruleCopySkipIsSameContent(c *Ctx, rule string) {
	c.Rule(rule, "copyNamedFile skips the copy only for the same content: every success return that is not preceded by opening the file for writing lies on an edge where the target name equals GetFile(<wanted digest>) (content-addressed: size is enough) or where the digest of the file's current content, as returned by readAndSum(<name>, …), equals the wanted digest — Link passes a manifest path, and a manifest of the same size is not the same manifest")
	f := c.Fn(rule, blobPkg, "DiskCache.copyNamedFile")
	if f == nil {
		return
	}
	info := f.Info()
	g := c.G(f)
	nameP, outP := paramAt(f, 0), paramAt(f, 2)
	opens := g.FindCalls("os.OpenFile", "os.Create")
	if !c.Expect(rule, "file opened for writing in copyNamedFile", len(opens), 1) || nameP == nil || outP == nil {
		return
	}
	isOut := func(e ast.Expr) bool {
		id, ok := ast.Unparen(e).(*ast.Ident)
		return ok && info.Uses[id] == outP
	}
	isName := func(e ast.Expr) bool {
		id, ok := ast.Unparen(e).(*ast.Ident)
		return ok && info.Uses[id] == nameP
	}
	// digests of the named file's current content: second result of readAndSum(name, …)
	sums := map[types.Object]bool{}
	for _, cs := range g.FindCalls(blobPkg + ".readAndSum") {
		call := cs.Node.(*ast.CallExpr)
		if len(call.Args) > 0 && isName(call.Args[0]) {
			if o := core.ResultVar(info, cs.Top, call, 1); o != nil {
				sums[o] = true
			}
		}
	}
	n := 0
	for _, ex := range g.Returns() {
		if g.ReturnKind(ex) != core.RetSuccess {
			continue
		}
		preceded := false
		for _, o := range opens {
			if g.Dominates(o.Loc, ex.Loc) {
				preceded = true
			}
		}
		if preceded {
			continue
		}
		n++
		ok := false
		for _, a := range g.AtomsAt(ex.Loc) {
			be, isB := ast.Unparen(a.Expr).(*ast.BinaryExpr)
			if !isB || !((be.Op == token.EQL && a.Val) || (be.Op == token.NEQ && !a.Val)) {
				continue
			}
			for _, p := range [][2]ast.Expr{{be.X, be.Y}, {be.Y, be.X}} {
				// name == c.GetFile(out)
				if call, isC := ast.Unparen(p[1]).(*ast.CallExpr); isC && isName(p[0]) && core.CalleeName(info, call) == blobPkg+".DiskCache.GetFile" && len(call.Args) == 1 && isOut(call.Args[0]) {
					ok = true
				}
				// d == out, d the digest of the file that is there
				if id, isId := ast.Unparen(p[0]).(*ast.Ident); isId && sums[info.Uses[id]] && isOut(p[1]) {
					ok = true
				}
			}
		}
		c.Check(rule, f.Key()+" skip-return#"+itoa(n), c.Pos(ex.Return), ok, "success without writing is guarded only by the size of the existing file: a manifest link of the same size keeps its old content while Link reports success")
	}
	c.Expect(rule, "success returns of copyNamedFile that skip the copy", n, 1)
}

func init() {
	p := registry["C08"]
	p.Pkgs = append(p.Pkgs, namesPkg)
	prev := p.Run
	p.Run = func(c *Ctx) { prev(c); extraC08Names(c) }
}

// extraC08Names is C08-R14: the name→path mapping of the blob cache stays under manifests/ because of
// the byte classes names.isValidPart accepts (the same exact evaluation as C13-R1, for the one parser
// the cache uses).
func extraC08Names(c *Ctx) {
	rule := "C08-R14"
	c.Rule(rule, "a name cannot address a blob: the cache turns a name into manifests/<host>/<namespace>/<model>/<tag>, so names.isValidPart must accept, for every kind of part, only first bytes from [A-Za-z0-9_] (no part can be \".\" or \"..\") and no path separator or NUL anywhere — evaluated exactly, for all 256 byte values, both positions and every kind, by the byte-classifier interpreter (a name such as ../blobs/sha256-<hex>:. would otherwise make Link overwrite, and Unlink delete, a blob)")
	nk := kindConsts(c, namesPkg, "part")
	if !c.Expect(rule, "part kinds in names", len(nk), 4) {
		return
	}
	alnum := core.NewIvSet(core.Iv{Lo: '0', Hi: '9'}, core.Iv{Lo: 'A', Hi: 'Z'}, core.Iv{Lo: 'a', Hi: 'z'}, core.Iv{Lo: '_', Hi: '_'})
	cls := classifyParts(c, rule, namesPkg, nk)
	var ks []string
	for k := range cls {
		ks = append(ks, k)
	}
	sort.Strings(ks)
	for _, k := range ks {
		pc := cls[k]
		key := namesPkg + ".isValidPart[" + k + "]"
		if pc.Undecided != "" {
			c.Undecided(rule, key, "-", "outside the interpreted fragment: "+pc.Undecided)
			continue
		}
		c.Check(rule, key+" first byte cannot start a dot component", "-", pc.First.Minus(alnum).Empty(), "first-byte class is "+pc.First.String()+", want a subset of "+alnum.String())
		c.Check(rule, key+" no separator or NUL", "-", !pc.Rest.Contains('/') && !pc.Rest.Contains('\\') && !pc.Rest.Contains(0) && !pc.First.Contains('/') && !pc.First.Contains('\\') && !pc.First.Contains(0), "rest class is "+pc.Rest.String())
	}
}

package core

// SelfTest runs the engine-level positive/negative controls (synthetic snippets
// embedded in the binary) so that a broken primitive cannot produce a silent pass.
func SelfTest(r *Report) {
	for _, t := range selfTests {
		if msg := t.fn(); msg != "" {
			r.Undecided("engine-control", t.name, "-", "engine self-test failed: "+msg)
		} else {
			r.Count("engine_controls_passed", 1)
		}
	}
}

type selfTestT struct {
	name string
	fn   func() string
}

var selfTests []selfTestT

#!/bin/bash
# usage: confirm_seed.sh <seeddir> <pkgdir> <run-regex>
# Confirms a seeded change in a scratch worktree: demo passes clean, fails patched, existing tests of touched packages pass patched.
set -u
SD=$(readlink -f "$1"); PKG="$2"; RX="$3"
WT=/tmp/confirm-wt-$$
export GOFLAGS=-mod=mod GOPROXY=off; unset GOWORK
OUT=$SD/confirm.txt; : > $OUT
git -C /repo worktree add -q --detach $WT HEAD || exit 2
trap 'git -C /repo worktree remove --force $WT' EXIT
cd $WT
cp $SD/demo/*.go $PKG/ 2>/dev/null
echo "## demo on clean tree (HEAD $(git rev-parse --short HEAD))" >> $OUT
if go test ${DEMO_FLAGS:-} -vet=off -count=1 -timeout 10m -run "$RX" ./$PKG/ >> $OUT 2>&1; then echo "CLEAN: PASS" >> $OUT; else echo "CLEAN: FAIL" >> $OUT; fi
git apply --whitespace=nowarn $SD/patch.diff >> $OUT 2>&1 || { echo "PATCH: DOES NOT APPLY" >> $OUT; exit 1; }
if go build ./... >> $OUT 2>&1; then echo "BUILD: OK" >> $OUT; else echo "BUILD: FAIL" >> $OUT; fi
echo "## demo on patched tree" >> $OUT
if go test ${DEMO_FLAGS:-} -vet=off -count=1 -timeout 10m -run "$RX" ./$PKG/ > /tmp/confirm-$$.log 2>&1; then echo "PATCHED: PASS (demo does not detect)" >> $OUT; else tail -15 /tmp/confirm-$$.log >> $OUT; echo "PATCHED: FAIL (as intended)" >> $OUT; fi
rm -f /tmp/confirm-$$.log
for f in $SD/demo/*.go; do rm -f $PKG/$(basename $f); done
PKGS=$( (git diff --name-only | xargs -n1 dirname; echo $PKG) | sort -u | sed 's|^|./|;s|$|/...|' | tr '\n' ' ')
echo "## existing tests with the patch: $PKGS" >> $OUT
if go test -vet=off -count=1 -timeout 20m ${EXTRA_TEST_FLAGS:-} $PKGS > /tmp/confirm-$$.log 2>&1; then echo "EXISTING: PASS" >> $OUT; else grep -E "^(FAIL|---|ok)" /tmp/confirm-$$.log | head -20 >> $OUT; echo "EXISTING: FAIL" >> $OUT; fi
rm -f /tmp/confirm-$$.log
grep -E "^(CLEAN|BUILD|PATCHED|EXISTING|PATCH):" $OUT | tr '\n' ' '; echo " <- $SD"

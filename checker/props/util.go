package props

import (
	"go/ast"
	"go/token"
	"go/types"
	"os"
	"sort"

	"verifcheck/core"
)

func os_Getenv(k string) string { return os.Getenv(k) }

// reachable returns the declared functions of package rel reachable from roots through
// statically resolved calls (including calls made inside their function literals and go
// statements), roots included, sorted by name.
func reachable(c *Ctx, rel string, roots ...string) []*core.Func {
	fns := c.P.FuncsOf(rel)
	byObj := map[types.Object]*core.Func{}
	byName := map[string]*core.Func{}
	for _, f := range fns {
		if f.Obj != nil {
			byObj[f.Obj] = f
		}
		byName[f.Name] = f
	}
	seen := map[*core.Func]bool{}
	var work []*core.Func
	for _, r := range roots {
		if f := byName[r]; f != nil && !seen[f] {
			seen[f] = true
			work = append(work, f)
		}
	}
	for len(work) > 0 {
		f := work[len(work)-1]
		work = work[:len(work)-1]
		ast.Inspect(f.Body, func(n ast.Node) bool {
			var o types.Object
			switch x := n.(type) {
			case *ast.CallExpr:
				o = core.Callee(f.Info(), x)
			case *ast.SelectorExpr: // method values b.run passed around
				o = f.Info().Uses[x.Sel]
			case *ast.Ident:
				o = f.Info().Uses[x]
			}
			if fo, ok := o.(*types.Func); ok {
				if t := byObj[fo.Origin()]; t != nil && !seen[t] {
					seen[t] = true
					work = append(work, t)
				}
			}
			return true
		})
	}
	var out []*core.Func
	for f := range seen {
		out = append(out, f)
	}
	sort.Slice(out, func(i, j int) bool { return out[i].Name < out[j].Name })
	return out
}

// withLits returns f followed by all its nested literals.
func withLits(f *core.Func) []*core.Func { return append([]*core.Func{f}, f.Lits()...) }

// rangeLoops returns the range statements in f (shallow) with the object ranged over.
type rangeLoop struct {
	Stmt *ast.RangeStmt
	Over types.Object // nil unless ranging over a plain variable
}

func rangeLoops(f *core.Func) []rangeLoop {
	var out []rangeLoop
	core.InspectShallow(f.Body, func(n ast.Node) bool {
		if rs, ok := n.(*ast.RangeStmt); ok {
			rl := rangeLoop{Stmt: rs}
			if p := core.PathOf(f.Info(), rs.X); p.Valid() && len(p.Fields) == 0 {
				rl.Over = p.Root
			}
			out = append(out, rl)
		}
		return true
	})
	return out
}

func within(outer, inner ast.Node) bool {
	return outer.Pos() <= inner.Pos() && inner.End() <= outer.End()
}

// mentionsSel: does n contain a selector with the given field/method name?
func mentionsSel(n ast.Node, name string) bool {
	found := false
	ast.Inspect(n, func(m ast.Node) bool {
		if se, ok := m.(*ast.SelectorExpr); ok && se.Sel.Name == name {
			found = true
		}
		return !found
	})
	return found
}

// isLenOf matches len(<path>) and returns the path key.
func isLenOf(info *types.Info, e ast.Expr) (core.Path, bool) {
	call, ok := ast.Unparen(e).(*ast.CallExpr)
	if !ok || core.CalleeName(info, call) != "builtin.len" || len(call.Args) != 1 {
		return core.Path{}, false
	}
	p := core.PathOf(info, call.Args[0])
	return p, p.Valid()
}

// cmpWithLen: cond compares expression `x` (rendered) with len(s); returns true if so.
func cmpWithLen(info *types.Info, cond ast.Expr, xs string, s core.Path) (op token.Token, xOnLeft bool, ok bool) {
	be, isB := ast.Unparen(cond).(*ast.BinaryExpr)
	if !isB {
		return 0, false, false
	}
	switch be.Op {
	case token.LSS, token.LEQ, token.GTR, token.GEQ, token.EQL, token.NEQ:
	default:
		return 0, false, false
	}
	if p, isLen := isLenOf(info, be.Y); isLen && p.Key() == s.Key() && core.ExprString(be.X) == xs {
		return be.Op, true, true
	}
	if p, isLen := isLenOf(info, be.X); isLen && p.Key() == s.Key() && core.ExprString(be.Y) == xs {
		return be.Op, false, true
	}
	return 0, false, false
}

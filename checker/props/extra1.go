package props

import (
	"go/ast"
	"go/token"
	"go/types"

	"verifcheck/core"
)

// Additional rules written after all twenty properties had a check, to cover mechanisms of
// the anchors that the first pass left out.

func init() {
	prevC02 := registry["C02"].Run
	registry["C02"].Run = func(c *Ctx) { prevC02(c); extraC02(c) }
	prevC19 := registry["C19"].Run
	registry["C19"].Run = func(c *Ctx) { prevC19(c); extraC19(c) }
	registry["C19"].Pkgs = append(registry["C19"].Pkgs, "template")
}
func extraC02(c *Ctx) {
	m := newSchedModel(c, "C02-R13")
	info := m.info
	c.Rule("C02-R13", "making room makes progress: before the placement loop waits for the unload event, the victim's keep-alive is set to 0 under its refMu (so a busy victim expires at its finish event instead of keeping the waiting request blocked for its keep-alive, possibly for ever), and on the idle edge (refCount <= 0, tested in that critical section) the expiry is posted before the wait, because the victim's timer has been stopped")
	f := m.lc.fn("Scheduler.processPending")
	if f == nil {
		return
	}
	g := c.G(f)
	n := 0
	for _, op := range m.opsOn(m.fUnloaded, false) {
		if op.Fn != f || op.Fn.Lit != nil {
			continue
		}
		wait := g.Locate(op.Node)
		// only the wait that follows a victim selection (the other receive ignores stray events)
		var victim core.Path
		for _, st := range m.fieldStores(m.fSessionDuration) {
			if st.Fn != f || st.Lit {
				continue
			}
			as, ok := st.Node.(*ast.AssignStmt)
			if !ok {
				continue
			}
			if v, isC := core.ConstInt(info, as.Rhs[0]); isC && v == 0 && g.Dominates(g.Locate(as), wait) && m.ownerLockHeld(st.LHS, m.fRefMu, as) {
				victim = core.PathOf(info, st.LHS).Prefix()
			}
		}
		// is this wait preceded by a victim selection at all?
		sel := false
		for _, h := range g.FindCalls("server.Scheduler.findRunnerToUnload") {
			// the innermost loop around the selection is the placement loop of one request
			var loop *ast.ForStmt
			ast.Inspect(f.Body, func(x ast.Node) bool {
				if fs, ok := x.(*ast.ForStmt); ok && within(fs, h.Node) {
					loop = fs
				}
				return true
			})
			if loop != nil && within(loop, op.Node) && g.Reaches(h.Loc, wait) {
				sel = true
			}
		}
		if !sel {
			continue
		}
		n++
		c.Check("C02-R13", f.Key()+" victim's keep-alive zeroed under refMu before the wait", c.Pos(op.Node), victim.Valid(), "no dominating `victim.sessionDuration = 0` under the victim's refMu before waiting on unloadedCh")
		if !victim.Valid() {
			continue
		}
		// idle edge: a send of the victim on expiredCh must be passed before the wait
		idleOK := false
		for _, cb := range g.CondBlocks() {
			be, ok := ast.Unparen(cb.Cond).(*ast.BinaryExpr)
			if !ok || core.FieldVar(info, be.X) != m.fRefCount || !g.Dominates(g.CondLoc(cb.B), wait) {
				continue
			}
			if p := core.PathOf(info, be.X); !p.Valid() || p.Prefix().Key() != victim.Key() {
				continue
			}
			v, isC := core.ConstInt(info, be.Y)
			if !isC || v != 0 {
				continue
			}
			var idle int
			switch be.Op {
			case token.LEQ, token.EQL:
				idle = 0
			case token.GTR, token.NEQ:
				idle = 1
			default:
				continue
			}
			if !m.lc.heldAt(cb.Cond).HasPath(core.Path{Root: victim.Root, Fields: append(append([]*types.Var{}, victim.Fields...), m.fRefMu)}) {
				continue
			}
			missed := false
			g.Walk(core.StartOf(cb.B.Succs[idle]), func(nd ast.Node, l core.Loc) bool {
				if ss, isSend := nd.(*ast.SendStmt); isSend && m.chanFieldOf(ss.Chan, f) == m.fExpired {
					if p := core.PathOf(info, ss.Value); p.Valid() && p.Key() == victim.Key() {
						return true
					}
				}
				if l == wait {
					missed = true
					return true
				}
				return false
			})
			if !missed {
				idleOK = true
			}
		}
		c.Check("C02-R13", f.Key()+" idle victim's expiry posted before the wait", c.Pos(op.Node), idleOK, "on the refCount <= 0 edge (tested under the victim's refMu) every path to the wait must send the victim on expiredCh")
	}
	c.Expect("C02-R13", "waits for an unload after a victim selection", n, 1)
}

func extraC19(c *Ctx) {
	c.Rule("C19-R4", "template layer: collate visits every message once, in order; each message's content goes to exactly one place in the collated list (a new element, or appended to the previous element of the same role), and every system message's content is added to the system string")
	f := c.Fn("C19-R4", "template", "collate")
	if f == nil {
		return
	}
	info := f.Info()
	g := c.G(f)
	var loop *ast.RangeStmt
	for _, rl := range rangeLoops(f) {
		if rl.Over == paramAt(f, 0) {
			loop = rl.Stmt
		}
	}
	if loop == nil || len(loop.Body.List) == 0 {
		c.Undecided("C19-R4", "anchor:loop over msgs in collate", "-", "anchor lost")
		return
	}
	// no break/continue/return inside the loop
	early := false
	ast.Inspect(loop.Body, func(n ast.Node) bool {
		switch x := n.(type) {
		case *ast.BranchStmt:
			if x.Tok != token.CONTINUE {
				early = true // break / goto: later messages would be dropped
			}
		case *ast.ReturnStmt:
			early = true
		}
		return true
	})
	start := g.Locate(loop.Body.List[0])
	first := true
	var collObj types.Object
	_, exits := g.CountPathsIn(core.Loc{B: start.B, I: start.I - 1}, func(n ast.Node) int {
		k := 0
		core.InspectShallow(n, func(x ast.Node) bool {
			as, ok := x.(*ast.AssignStmt)
			if !ok || len(as.Lhs) != 1 {
				return true
			}
			// collated = append(collated, &msg)  |  collated[len-1].Content += ... msg.Content
			if len(core.CallsTo(info, as.Rhs[0], false, "builtin.append")) == 1 && as.Tok == token.ASSIGN {
				if id, isID := as.Lhs[0].(*ast.Ident); isID {
					// the collated list holds messages (the system list holds strings)
					if sl, isSl := info.TypeOf(id).Underlying().(*types.Slice); isSl && core.ObjNameOfType(sl.Elem()) == "api.Message" {
						collObj = info.Uses[id]
						k++
					}
				}
			}
			if as.Tok == token.ADD_ASSIGN && selName(as.Lhs[0]) == "Content" && mentionsSel(as.Rhs[0], "Content") {
				k++
			}
			return true
		})
		return k
	}, func(n ast.Node, l core.Loc) bool {
		if l == start {
			if first {
				first = false
				return false
			}
			return true
		}
		return false
	}, core.InStmt(loop))
	one := len(exits) > 0
	for _, mk := range exits {
		if mk != 2 {
			one = false
		}
	}
	c.Check("C19-R4", f.Key()+" each message lands exactly once in the collated list", c.Pos(loop), one && !early && collObj != nil, "every iteration must either append the message or merge it into the previous same-role element, exactly once, with no early exit")
	// merge only for the same role as the last element
	okRole := false
	for _, h := range g.Find(func(n ast.Node) bool {
		as, ok := n.(*ast.AssignStmt)
		return ok && as.Tok == token.ADD_ASSIGN && selName(as.Lhs[0]) == "Content"
	}) {
		for _, a := range g.AtomsAt(h.Loc) {
			if be, isB := ast.Unparen(a.Expr).(*ast.BinaryExpr); isB && be.Op == token.EQL && a.Val && selName(be.X) == "Role" && selName(be.Y) == "Role" {
				okRole = true
			}
		}
	}
	c.Check("C19-R4", f.Key()+" merges only consecutive messages of the same role", c.Pos(loop), okRole, "")
	// system collection: a top-level `if msg.Role == "system" { system = append(system, msg.Content) }`
	okSys := false
	var sysObj types.Object
	skipped := false // a statement before the collection can leave the iteration
	for _, st := range loop.Body.List {
		is, ok := st.(*ast.IfStmt)
		if !ok || is.Init != nil {
			ast.Inspect(st, func(x ast.Node) bool {
				switch x.(type) {
				case *ast.BranchStmt, *ast.ReturnStmt:
					if !okSys {
						skipped = true
					}
				}
				return true
			})
			continue
		}
		be, ok := ast.Unparen(is.Cond).(*ast.BinaryExpr)
		if !ok || be.Op != token.EQL || selName(be.X) != "Role" {
			continue
		}
		if v, isC := core.ConstString(info, be.Y); !isC || v != "system" {
			continue
		}
		for _, bs := range is.Body.List {
			as, ok := bs.(*ast.AssignStmt)
			if ok && len(as.Lhs) == 1 && len(core.CallsTo(info, as.Rhs[0], false, "builtin.append")) == 1 && mentionsSel(as.Rhs[0], "Content") {
				// the collected list is what the function joins into its first result
				if id, isID := as.Lhs[0].(*ast.Ident); isID {
					sysObj = info.ObjectOf(id)
					okSys = true
				}
			}
		}
	}
	// other if statements before the collection that can leave the iteration
	for _, st := range loop.Body.List {
		is, ok := st.(*ast.IfStmt)
		if !ok {
			continue
		}
		isColl := false
		if be, isB := ast.Unparen(is.Cond).(*ast.BinaryExpr); isB && be.Op == token.EQL && selName(be.X) == "Role" {
			if v, isC := core.ConstString(info, be.Y); isC && v == "system" {
				isColl = true
			}
		}
		if isColl {
			break
		}
		ast.Inspect(is, func(x ast.Node) bool {
			switch x.(type) {
			case *ast.BranchStmt, *ast.ReturnStmt:
				skipped = true
			}
			return true
		})
	}
	okSys = okSys && !skipped
	joined := false
	for _, ex := range g.Returns() {
		if len(ex.Return.Results) == 2 {
			for _, j := range core.CallsTo(info, ex.Return.Results[0], false, "strings.Join") {
				if sysObj != nil && isIdentOf(info, j.Args[0], sysObj) {
					joined = true
				}
			}
		}
	}
	c.Check("C19-R4", f.Key()+" every system message reaches the system string", c.Pos(loop), okSys && joined, "the loop body must collect msg.Content of every system message before anything can leave the iteration (a merged system message must still reach .System)")
	// Execute renders with the collated result
	if ef := c.Fn("C19-R4", "template", "Template.Execute"); ef != nil {
		eg := c.G(ef)
		h := eg.FindCalls("template.collate")
		ok := len(h) == 1
		if ok {
			call := h[0].Node.(*ast.CallExpr)
			ok = selName(call.Args[0]) == "Messages"
		}
		c.Check("C19-R4", ef.Key()+" renders the collated messages of the values it was given", c.Pos(ef.Decl), ok, "")
	}
}

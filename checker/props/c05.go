package props

import (
	"go/ast"
	"go/constant"
	"go/token"
	"go/types"
	"sort"
	"strings"

	"verifcheck/core"
)

const ggmlPkg = "fs/ggml"

func init() {
	register(&Prop{ID: "C05", Pkgs: []string{ggmlPkg, "server"}, Run: runC05})
}

// tagConst resolves an expression to a ggufType* constant (name, value).
func tagConst(info *types.Info, e ast.Expr) (string, int64, bool) {
	id, ok := ast.Unparen(e).(*ast.Ident)
	if !ok {
		return "", 0, false
	}
	cst, ok := info.Uses[id].(*types.Const)
	if !ok || !strings.HasPrefix(cst.Name(), "ggufType") {
		return "", 0, false
	}
	v, _ := constant.Int64Val(constant.ToInt(cst.Val()))
	return cst.Name(), v, true
}

// readerTable extracts tag-constant -> Go type read from a `switch t { case ggufTypeX: v, err = readGGUF[T](...) }`.
func readerTable(c *Ctx, f *core.Func) map[string]string {
	info := f.Info()
	out := map[string]string{}
	ast.Inspect(f.Body, func(n ast.Node) bool {
		sw, ok := n.(*ast.SwitchStmt)
		if !ok || sw.Tag == nil {
			return true
		}
		for _, cl := range sw.Body.List {
			cc := cl.(*ast.CaseClause)
			for _, ce := range cc.List {
				name, _, isTag := tagConst(info, ce)
				if !isTag {
					continue
				}
				typ := ""
				for _, call := range core.Calls(cc, false) {
					switch core.CalleeName(info, call) {
					case ggmlPkg + ".readGGUF":
						// explicit instantiation readGGUF[T]
						if ix, ok := ast.Unparen(call.Fun).(*ast.IndexExpr); ok {
							typ = info.Types[ix.Index].Type.String()
						}
					case ggmlPkg + ".readGGUFString":
						typ = "string"
					case ggmlPkg + ".readGGUFArray":
						typ = "array"
					}
				}
				if prev, dup := out[name]; dup && prev != typ {
					typ = prev + "|" + typ
				}
				out[name] = typ
			}
		}
		return true
	})
	return out
}

func runC05(c *Ctx) {
	info := c.P.Pkgs[ggmlPkg].TypesInfo
	pkg := c.P.Pkgs[ggmlPkg].Types

	// ------------------------------------------------------------------ R1
	c.Rule("C05-R1", "typed KV writer/reader tables agree: every Go type ggufWriteKV accepts is written with a tag constant whose reader (gguf.Decode for scalars, readGGUFArray for elements) reads exactly that Go type; the 13 tag constants are distinct and all handled by the reader")
	tags := map[string]int64{}
	for _, n := range pkg.Scope().Names() {
		if cst, ok := pkg.Scope().Lookup(n).(*types.Const); ok && strings.HasPrefix(n, "ggufType") {
			v, _ := constant.Int64Val(constant.ToInt(cst.Val()))
			tags[n] = v
		}
	}
	c.Expect("C05-R1", "ggufType tag constants", len(tags), 13)
	seen := map[int64]string{}
	for _, n := range sortedKeys2(tags) {
		if o, dup := seen[tags[n]]; dup {
			c.Violation("C05-R1", "tag:"+n+" distinct", "-", "same value as "+o)
		}
		seen[tags[n]] = n
	}
	var scalarR, arrayR map[string]string
	if f := c.Fn("C05-R1", ggmlPkg, "gguf.Decode"); f != nil {
		scalarR = readerTable(c, f)
	}
	if f := c.Fn("C05-R1", ggmlPkg, "readGGUFArray"); f != nil {
		arrayR = readerTable(c, f)
	}
	for _, n := range sortedKeys2(tags) {
		c.Check("C05-R1", "tag:"+n+" handled by the KV reader", "-", scalarR[n] != "", "gguf.Decode has no case for this tag")
		if n != "ggufTypeArray" {
			c.Check("C05-R1", "tag:"+n+" handled by the array reader", "-", arrayR[n] != "", "readGGUFArray has no case for this element tag")
			c.Check("C05-R1", "tag:"+n+" scalar and array readers agree", "-", arrayR[n] == scalarR[n], "scalar reader reads "+scalarR[n]+", array reader reads "+arrayR[n])
		}
	}
	if f := c.Fn("C05-R1", ggmlPkg, "ggufWriteKV"); f != nil {
		rows := 0
		ast.Inspect(f.Body, func(n ast.Node) bool {
			ts, ok := n.(*ast.TypeSwitchStmt)
			if !ok {
				return true
			}
			for _, cl := range ts.Body.List {
				cc := cl.(*ast.CaseClause)
				for _, te := range cc.List {
					gt := info.Types[te].Type
					if gt == nil {
						continue
					}
					rows++
					// tag constants mentioned in the clause, in source order
					var tg []string
					ast.Inspect(cc, func(x ast.Node) bool {
						if e, ok := x.(ast.Expr); ok {
							if nm, _, is := tagConst(info, e); is {
								tg = append(tg, nm)
							}
						}
						return true
					})
					// tags written by a helper the clause delegates to (hand-written layouts moved out of line)
					direct := map[string]bool{}
					for _, nm := range tg {
						direct[nm] = true
					}
					for _, ev := range writeEvents(c, info, cc, 0) {
						if ev.tag != "" && !direct[ev.tag] {
							tg = append(tg, ev.tag)
						}
					}
					callsStr := len(core.CallsTo(info, cc, false, ggmlPkg+".writeGGUFString")) > 0
					callsArr := len(core.CallsTo(info, cc, false, ggmlPkg+".writeGGUFArray")) > 0
					ok, detail := false, ""
					switch t := gt.Underlying().(type) {
					case *types.Slice:
						var elemTag string
						switch {
						case callsArr && len(tg) == 1:
							elemTag = tg[0]
						case len(tg) == 2 && tg[0] == "ggufTypeArray":
							elemTag = tg[1]
						}
						want := t.Elem().String()
						ok = elemTag != "" && arrayR[elemTag] == want
						detail = "written as array of " + elemTag + ", which the array reader reads as " + arrayR[elemTag] + ", Go element type " + want
						// hand-written string arrays: each element = u64 length + bytes
						if !callsArr && ok && want == "string" {
							seq := evTypes(writeEvents(c, info, cc, 0))
							if strings.Join(seq, ",") != "uint32,uint32,uint64,uint64,[]byte" {
								ok, detail = false, "string array element layout is "+strings.Join(seq, ",")+", want tag,tag,u64 count,(u64 len,bytes)*"
							}
						}
					default:
						tag := ""
						switch {
						case callsStr:
							tag = "ggufTypeString"
						case len(tg) == 1:
							tag = tg[0]
						}
						ok = tag != "" && scalarR[tag] == gt.String()
						detail = "written with " + tag + ", which the reader reads as " + scalarR[tag] + ", Go type " + gt.String()
					}
					c.Check("C05-R1", "writer row:"+gt.String(), c.Pos(te), ok, detail)
				}
			}
			return true
		})
		c.Expect("C05-R1", "Go types accepted by ggufWriteKV", rows, 8)
	}
	// helper writers: tag then payload, little endian on both sides
	if f := c.Fn("C05-R1", ggmlPkg, "writeGGUFString"); f != nil {
		seq := writeSeq(info, f.Body)
		// tag, u64 length; bytes via io.Copy
		okTag := false
		for _, call := range core.CallsTo(info, f.Body, false, "encoding/binary.Write") {
			if nm, _, is := tagConst(info, call.Args[2]); is && nm == "ggufTypeString" {
				okTag = true
			}
		}
		c.Check("C05-R1", f.Key()+" layout", c.Pos(f.Decl), okTag && strings.Join(seq, ",") == "uint32,uint64", "writeGGUFString must write tag ggufTypeString, a uint64 length, then the bytes; found "+strings.Join(seq, ","))
	}
	if f := c.Fn("C05-R1", ggmlPkg, "writeGGUFArray"); f != nil {
		seq := writeSeq(info, f.Body)
		c.Check("C05-R1", f.Key()+" layout", c.Pos(f.Decl), len(seq) == 4 && seq[0] == "uint32" && seq[1] == "uint32" && seq[2] == "uint64", "writeGGUFArray must write array tag, element tag, uint64 count, elements; found "+strings.Join(seq, ","))
	}
	if f := c.Fn("C05-R1", ggmlPkg, "readGGUFArray"); f != nil {
		g := c.G(f)
		// element tag uint32 then count uint64
		var order []string
		for _, h := range g.FindCalls(ggmlPkg + ".readGGUF") {
			if ix, ok := ast.Unparen(h.Node.(*ast.CallExpr).Fun).(*ast.IndexExpr); ok {
				if _, inSwitch := enclosingCase(f.Body, h.Node); !inSwitch {
					order = append(order, info.Types[ix.Index].Type.String())
				}
			}
		}
		c.Check("C05-R1", f.Key()+" header layout", c.Pos(f.Decl), strings.Join(order, ",") == "uint32,uint64", "array reader must read element tag (uint32) then count (uint64); found "+strings.Join(order, ","))
	}
	if f := c.Fn("C05-R1", ggmlPkg, "readGGUFString"); f != nil {
		// length is read as 8 bytes: ByteOrder.Uint64
		ok := len(core.CallsTo(info, f.Body, false, "encoding/binary.ByteOrder.Uint64")) == 1
		c.Check("C05-R1", f.Key()+" reads a uint64 length", c.Pos(f.Decl), ok, "the string reader must read a 64-bit length (writer writes uint64(len))")
	}

	// ------------------------------------------------------------------ R2
	c.Rule("C05-R2", "tensor-info and header field sequences agree: ggufWriteTensorInfo writes u64 name length, name bytes, u32 dims, u64 per dimension (reversed), u32 kind, u64 offset, and the decoder's tensor loop reads string, u32, u64*dims, u32, u64 into Name, dims, Shape, Kind, Offset; the header is magic, u32 version, u64 tensors, u64 kvs")
	if f := c.Fn("C05-R2", ggmlPkg, "ggufWriteTensorInfo"); f != nil {
		evs := writeEvents(c, info, f.Body, 0)
		seq := evTypes(evs)
		c.Check("C05-R2", f.Key()+" field sequence", c.Pos(f.Decl), strings.Join(seq, ",") == "uint64,[]byte,uint32,uint64,uint32,uint64", "found "+strings.Join(seq, ","))
		// operands: len(t.Name), t.Name, len(t.Shape), t.Shape[..reversed..], t.Kind, t.Offset
		var ops []string
		for _, ev := range evs {
			ops = append(ops, ev.op)
		}
		c.Check("C05-R2", f.Key()+" field operands", c.Pos(f.Decl), strings.Join(ops, ",") == "Name,Name,Shape,Shape,Kind,Offset", "found "+strings.Join(ops, ","))
		// dimensions are written reversed: index expression len-i-1
		rev := false
		ast.Inspect(f.Body, func(n ast.Node) bool {
			if ix, ok := n.(*ast.IndexExpr); ok && selName(ix.X) == "Shape" {
				if be, ok := ast.Unparen(ix.Index).(*ast.BinaryExpr); ok && be.Op == token.SUB {
					rev = true
				}
				// or the index of a loop that counts down from len(Shape)-1
				if id, ok := ast.Unparen(ix.Index).(*ast.Ident); ok {
					ast.Inspect(f.Body, func(m ast.Node) bool {
						fs, isFor := m.(*ast.ForStmt)
						if !isFor || !within(fs.Body, ix) || fs.Init == nil || fs.Post == nil {
							return true
						}
						init, isAs := fs.Init.(*ast.AssignStmt)
						post, isInc := fs.Post.(*ast.IncDecStmt)
						if !isAs || !isInc || len(init.Lhs) != 1 || len(init.Rhs) != 1 || post.Tok != token.DEC {
							return true
						}
						lv, isLv := init.Lhs[0].(*ast.Ident)
						pv, isPv := ast.Unparen(post.X).(*ast.Ident)
						if !isLv || !isPv || info.ObjectOf(lv) != info.ObjectOf(id) || info.ObjectOf(pv) != info.ObjectOf(id) {
							return true
						}
						if be, isB := ast.Unparen(init.Rhs[0]).(*ast.BinaryExpr); isB && be.Op == token.SUB {
							if call, isC := ast.Unparen(be.X).(*ast.CallExpr); isC && core.CalleeName(info, call) == "builtin.len" && selName(call.Args[0]) == "Shape" {
								if k, isK := core.ConstInt(info, be.Y); isK && k == 1 {
									rev = true
								}
							}
						}
						return true
					})
				}
			}
			return true
		})
		c.Check("C05-R2", f.Key()+" dimensions reversed", c.Pos(f.Decl), rev, "the writer must emit Shape in reverse order (the decoded shape is dimension-reversed)")
	}
	if f := c.Fn("C05-R2", ggmlPkg, "gguf.Decode"); f != nil {
		// the tensor loop: the range loop that appends to llm.tensors
		var loop *ast.RangeStmt
		for _, rl := range rangeLoops(f) {
			if len(core.CallsTo(info, rl.Stmt.Body, false, "builtin.append")) > 0 && mentionsSel(rl.Stmt.Body, "tensors") && loop == nil {
				loop = rl.Stmt
			}
		}
		if loop == nil {
			c.Undecided("C05-R2", "anchor:tensor loop in gguf.Decode", "-", "anchor lost")
		} else {
			var seq []string
			vars := map[string]types.Object{}
			var readObjs []types.Object
			core.InspectShallow(loop.Body, func(n ast.Node) bool {
				as, ok := n.(*ast.AssignStmt)
				if !ok || len(as.Rhs) != 1 {
					return true
				}
				call, ok := ast.Unparen(as.Rhs[0]).(*ast.CallExpr)
				if !ok {
					return true
				}
				t := ""
				switch core.CalleeName(info, call) {
				case ggmlPkg + ".readGGUFString":
					t = "string"
				case ggmlPkg + ".readGGUF":
					if ix, ok := ast.Unparen(call.Fun).(*ast.IndexExpr); ok {
						t = info.Types[ix.Index].Type.String()
					}
				default:
					return true
				}
				seq = append(seq, t)
				var ro types.Object
				if id, ok := as.Lhs[0].(*ast.Ident); ok {
					if o := info.Defs[id]; o != nil {
						vars[id.Name] = o
						ro = o
					}
				}
				readObjs = append(readObjs, ro)
				return true
			})
			c.Check("C05-R2", f.Key()+" tensor loop read sequence", c.Pos(loop), strings.Join(seq, ",") == "string,uint32,uint64,uint32,uint64", "found "+strings.Join(seq, ","))
			// the Tensor literal takes Name/Kind/Offset/Shape from the reads in that order
			okLit := false
			ast.Inspect(loop.Body, func(n ast.Node) bool {
				cl, ok := n.(*ast.CompositeLit)
				if !ok || core.ObjNameOfType(info.Types[cl].Type) != ggmlPkg+".Tensor" {
					return true
				}
				got := map[string]types.Object{}
				for _, e := range cl.Elts {
					kv := e.(*ast.KeyValueExpr)
					var o types.Object
					ast.Inspect(kv.Value, func(x ast.Node) bool {
						if id, ok := x.(*ast.Ident); ok && o == nil {
							o = info.Uses[id]
						}
						return true
					})
					got[kv.Key.(*ast.Ident).Name] = o
				}
				// reads in wire order: string (name), u32 (dims), u64 (each dim), u32 (kind), u64 (offset)
				if len(readObjs) == 5 {
					okLit = got["Name"] != nil && got["Name"] == readObjs[0] && got["Kind"] != nil && got["Kind"] == readObjs[3] &&
						got["Offset"] != nil && got["Offset"] == readObjs[4] && got["Shape"] != nil && got["Shape"] != readObjs[2]
					// the shape is built from the per-dimension reads
					okShape := false
					ast.Inspect(loop.Body, func(y ast.Node) bool {
						if as, ok := y.(*ast.AssignStmt); ok && len(as.Lhs) == 1 && len(as.Rhs) == 1 {
							if id, isID := as.Lhs[0].(*ast.Ident); isID && info.ObjectOf(id) == got["Shape"] && readObjs[2] != nil && core.UsesObj(info, as.Rhs[0], readObjs[2]) {
								okShape = true
							}
						}
						return true
					})
					okLit = okLit && okShape
				}
				return true
			})
			okOrder := true
			c.Check("C05-R2", f.Key()+" tensor fields bound in wire order", c.Pos(loop), okLit && okOrder, "Name, Kind and Offset must be bound from the first string read, the u32 after the dimensions and the final u64, in that order")
		}
	}
	if f := c.Fn("C05-R2", ggmlPkg, "WriteGGUF"); f != nil {
		seq := writeSeq(info, f.Body)
		var ops []string
		binWrites := core.CallsTo(info, f.Body, false, "encoding/binary.Write")
		for _, call := range binWrites {
			ops = append(ops, core.ExprString(call.Args[2]))
		}
		ok := len(seq) >= 4 && strings.Join(seq[:4], ",") == "[]byte,uint32,uint64,uint64" && len(ops) >= 4 && lenOfParam(info, f, binWrites[2].Args[2], 2) && lenOfParam(info, f, binWrites[3].Args[2], 1)
		c.Check("C05-R2", f.Key()+" header = magic, version, tensor count, kv count", c.Pos(f.Decl), ok, "found "+strings.Join(ops, " ; "))
		v3 := c.P.LookupField(ggmlPkg, "containerGGUF", "V3")
		okV3 := false
		if v3 != nil {
			if st, isSt := v3.Type().Underlying().(*types.Struct); isSt && st.NumFields() == 2 &&
				st.Field(0).Name() == "NumTensor" && st.Field(0).Type().String() == "uint64" && st.Field(1).Name() == "NumKV" && st.Field(1).Type().String() == "uint64" {
				okV3 = true
			}
		}
		c.Check("C05-R2", "containerGGUF.V3 = {NumTensor uint64, NumKV uint64}", "-", okV3, "the v3 header struct must match the writer's order and widths")
		// version written is 3
		okVer := false
		for _, call := range core.CallsTo(info, f.Body, false, "encoding/binary.Write") {
			if cv, ok := ast.Unparen(call.Args[2]).(*ast.CallExpr); ok && len(cv.Args) == 1 {
				if v, isC := core.ConstInt(info, cv.Args[0]); isC && v == 3 && info.Types[call.Args[2]].Type.String() == "uint32" {
					okVer = true
				}
			}
		}
		c.Check("C05-R2", f.Key()+" writes version 3", c.Pos(f.Decl), okVer, "the writer emits the v3 layout, so it must announce version 3")
	}

	// ------------------------------------------------------------------ R3 / R4
	c.Rule("C05-R3", "alignment agrees: writer and reader obtain it from the same key with the same default constant, and both pad before every tensor with ggufPadding(current offset, alignment); ggufPadding, read as a decision tree over r = offset%align, returns a form that is zero on every leaf reached with r == 0 and align-r (or (align-r)%align) on every leaf reached with 0 < r < align — valid for every positive alignment, not only powers of two")
	c.Rule("C05-R4", "the running offset includes padding: every update of the accumulator in WriteGGUF's tensor-info loop derives from the padded t.Offset plus t.Size(), and t.Offset is the accumulator plus ggufPadding of the accumulator")
	type al struct {
		key string
		def int64
	}
	getAlign := func(f *core.Func) (al, bool) {
		for _, call := range core.Calls(f.Body, false) {
			if core.CalleeName(info, call) == ggmlPkg+".KV.Uint" && len(call.Args) == 2 {
				k, ok1 := core.ConstString(info, call.Args[0])
				d, ok2 := core.ConstInt(info, call.Args[1])
				if ok1 && ok2 && strings.Contains(k, "alignment") {
					return al{k, d}, true
				}
			}
		}
		return al{}, false
	}
	fw, fr := c.Fn("C05-R3", ggmlPkg, "WriteGGUF"), c.Fn("C05-R3", ggmlPkg, "gguf.Decode")
	if fw != nil && fr != nil {
		a, ok1 := getAlign(fw)
		b, ok2 := getAlign(fr)
		c.Check("C05-R3", "alignment key and default agree", c.Pos(fw.Decl), ok1 && ok2 && a == b, "writer "+a.key+"="+itoa(int(a.def))+", reader "+b.key+"="+itoa(int(b.def)))
		// reader pads before every tensor: in the loop over tensors: Seek(0,cur) -> ggufPadding -> Seek(padding) -> Seek(Size)
		g := c.G(fr)
		okR := false
		for _, rl := range rangeLoops(fr) {
			if !mentionsSel(rl.Stmt.X, "tensors") {
				continue
			}
			pads := core.CallsTo(info, rl.Stmt.Body, false, ggmlPkg+".ggufPadding")
			sizes := core.CallsTo(info, rl.Stmt.Body, false, ggmlPkg+".Tensor.Size")
			seeks := core.CallsTo(info, rl.Stmt.Body, false, "io.Seeker.Seek")
			if len(pads) == 1 && len(sizes) >= 1 && len(seeks) == 3 {
				lp, ls := g.Locate(pads[0]), g.Locate(sizes[0])
				okR = g.Dominates(lp, ls) && lp != ls
			}
		}
		c.Check("C05-R3", fr.Key()+" skips padding then Size() for every tensor", c.Pos(fr.Decl), okR, "the decoder must, per tensor, seek over ggufPadding(current offset) and then over Tensor.Size()")
	}
	if f := c.Fn("C05-R3", ggmlPkg, "ggufWriteTensor"); f != nil {
		g := c.G(f)
		pads := g.FindCalls(ggmlPkg + ".ggufPadding")
		wr := g.FindCalls("io.WriterTo.WriteTo")
		seek := g.FindCalls("io.Seeker.Seek")
		ok := len(pads) == 1 && len(wr) == 1 && len(seek) == 1 && g.Dominates(seek[0].Loc, pads[0].Loc) && g.Dominates(pads[0].Loc, wr[0].Loc) && pads[0].Loc != wr[0].Loc
		if ok {
			// padding argument is the current offset from Seek and the alignment parameter
			ov := core.ResultVar(info, seek[0].Top, seek[0].Node.(*ast.CallExpr), 0)
			pc := pads[0].Node.(*ast.CallExpr)
			ok = ov != nil && core.UsesObj(info, pc.Args[0], ov) && core.UsesObj(info, pc.Args[1], paramAt(f, 2))
			if s, _ := g.OnSuccessOf(seek[0], pads[0].Loc); !s {
				ok = false
			}
		}
		c.Check("C05-R3", f.Key()+" pads to the alignment before the tensor bytes", c.Pos(f.Decl), ok, "ggufWriteTensor must write ggufPadding(current offset, alignment) zero bytes and then the tensor")
	}
	if f := c.Fn("C05-R3", ggmlPkg, "ggufPadding"); f != nil {
		ok, form := acceptedPaddingFormula(f)
		c.Check("C05-R3", f.Key()+" formula", c.Pos(f.Decl), ok, "ggufPadding must be (align - offset%align) % align (or an equivalent accepted form); found "+form)
	}
	if fw != nil {
		g := c.G(fw)
		// the loop that calls ggufWriteTensorInfo
		n := 0
		for _, rl := range rangeLoops(fw) {
			if len(core.CallsTo(info, rl.Stmt.Body, false, ggmlPkg+".ggufWriteTensorInfo")) == 0 {
				continue
			}
			n++
			vid, _ := rl.Stmt.Value.(*ast.Ident)
			var acc types.Object
			okOff := false
			core.InspectShallow(rl.Stmt.Body, func(x ast.Node) bool {
				as, ok := x.(*ast.AssignStmt)
				if !ok || len(as.Lhs) != 1 || selName(as.Lhs[0]) != "Offset" || vid == nil || !core.UsesObj(info, as.Lhs[0], info.Defs[vid]) {
					return true
				}
				// t.Offset = acc + pad(acc)
				be, isB := ast.Unparen(as.Rhs[0]).(*ast.BinaryExpr)
				if !isB || be.Op != token.ADD {
					return true
				}
				for _, pair := range [][2]ast.Expr{{be.X, be.Y}, {be.Y, be.X}} {
					id, isID := ast.Unparen(pair[0]).(*ast.Ident)
					pads := core.CallsTo(info, pair[1], false, ggmlPkg+".ggufPadding")
					if isID && len(pads) == 1 && core.UsesObj(info, pads[0].Args[0], info.Uses[id]) {
						acc = info.Uses[id]
						okOff = true
					}
				}
				return true
			})
			c.Check("C05-R4", fw.Key()+" t.Offset = acc + ggufPadding(acc)", c.Pos(rl.Stmt), okOff, "the offset written for a tensor must be the running offset rounded up to the alignment")
			if acc != nil {
				for _, as := range g.AssignsTo(acc) {
					a, isAs := as.Node.(*ast.AssignStmt)
					if !isAs || !within(rl.Stmt, a) {
						continue
					}
					ok := a.Tok == token.ASSIGN && mentionsSel(a.Rhs[0], "Offset") && len(core.CallsTo(info, a.Rhs[0], false, ggmlPkg+".Tensor.Size")) == 1 && vid != nil && core.UsesObj(info, a.Rhs[0], info.Defs[vid])
					c.Check("C05-R4", fw.Key()+" accumulator advances from the padded offset", c.Pos(a), ok, "with `s += t.Size()` the padding of earlier tensors is lost: written offsets 0, 32, 32 for F32 tensors of 5, 3, 1 elements while the data lands at 0, 32, 64")
				}
			}
			// data loop writes the same list in the same order
		}
		c.Expect("C05-R4", "tensor-info loops in WriteGGUF", n, 1)
		// both loops (info, data) range over the same slice, info first
		var over []types.Object
		for _, rl := range rangeLoops(fw) {
			if len(core.CallsTo(info, rl.Stmt.Body, false, ggmlPkg+".ggufWriteTensorInfo", ggmlPkg+".ggufWriteTensor")) > 0 {
				over = append(over, rl.Over)
			}
		}
		c.Check("C05-R4", fw.Key()+" info and data loops iterate one list", c.Pos(fw.Decl), len(over) == 2 && over[0] != nil && over[0] == over[1], "tensor infos and tensor data must be written from the same (sorted) slice")
	}

	// ------------------------------------------------------------------ R5
	c.Rule("C05-R5", "one size function: the writer's offsets and the reader's skipping both use Tensor.Size, which is parameters()*typeSize()/blockSize() (multiply before dividing); blockSize never returns 0; create decides 'exactly one model' by comparing the decoder's end offset with the file size")
	if f := c.Fn("C05-R5", ggmlPkg, "Tensor.Size"); f != nil {
		ok := false
		form := ""
		{
			if rs := core.SoleReturn(info, f.Body); rs != nil && len(rs.Results) == 1 {
				form = core.ExprString(rs.Results[0])
				if q, isQ := ast.Unparen(rs.Results[0]).(*ast.BinaryExpr); isQ && q.Op == token.QUO {
					mul, isM := ast.Unparen(q.X).(*ast.BinaryExpr)
					if isM && mul.Op == token.MUL && calleeSet(info, mul.X, mul.Y)[ggmlPkg+".Tensor.parameters"] && calleeSet(info, mul.X, mul.Y)[ggmlPkg+".Tensor.typeSize"] &&
						calleeSet(info, q.Y)[ggmlPkg+".Tensor.blockSize"] {
						ok = true
					}
				}
			}
		}
		c.Check("C05-R5", f.Key()+" formula", c.Pos(f.Decl), ok, "Size must be parameters()*typeSize()/blockSize() over the whole element count; found "+form)
	}
	if f := c.Fn("C05-R5", ggmlPkg, "Tensor.parameters"); f != nil {
		// product over all of Shape
		ok := false
		for _, rl := range rangeLoops(f) {
			if selName(rl.Stmt.X) == "Shape" {
				core.InspectShallow(rl.Stmt.Body, func(n ast.Node) bool {
					if as, isAs := n.(*ast.AssignStmt); isAs && as.Tok == token.MUL_ASSIGN {
						ok = true
					}
					return true
				})
			}
		}
		c.Check("C05-R5", f.Key()+" = product of all dimensions", c.Pos(f.Decl), ok, "parameters must multiply every entry of Shape")
	}
	if f := c.Fn("C05-R5", ggmlPkg, "Tensor.blockSize"); f != nil {
		g := c.G(f)
		n := 0
		for _, ex := range g.Returns() {
			n++
			v, isC := core.ConstInt(info, ex.Return.Results[0])
			c.Check("C05-R5", f.Key()+" return#"+itoa(n)+" non-zero constant", c.Pos(ex.Return), isC && v > 0, "blockSize is a divisor in Tensor.Size: every return must be a positive constant (an unknown kind must not yield 0)")
		}
		c.Expect("C05-R5", "returns of blockSize", n, 3)
	}
	if f := c.Fn("C05-R5", "server", "ggufLayers"); f != nil {
		sinfo := c.P.Pkgs["server"].TypesInfo
		g := c.G(f)
		// the value compared with stat.Size() is the offset returned by ggml.Decode
		ok := false
		for _, cb := range g.CondBlocks() {
			for _, cnd := range expand(g, cb.Cond, 2) { // the test itself, or a named boolean it consults
				ast.Inspect(cnd, func(x ast.Node) bool {
					be, isB := x.(*ast.BinaryExpr)
					if !isB || be.Op != token.EQL {
						return true
					}
					// the file size: stat.Size(), or a local holding it; on either side
					isSize := func(e ast.Expr) bool {
						for _, y := range expand(g, e, 1) {
							if len(core.CallsTo(sinfo, y, false, "io/fs.FileInfo.Size")) == 1 {
								return true
							}
						}
						return false
					}
					if !isSize(be.Y) {
						if !isSize(be.X) {
							return true
						}
						be = &ast.BinaryExpr{X: be.Y, Op: be.Op, Y: be.X}
					}
					if p := core.PathOf(sinfo, be.X); p.Valid() {
						for _, as := range g.AssignsTo(p.Root) {
							if len(core.CallsTo(sinfo, as.Node, false, ggmlPkg+".Decode")) == 1 {
								ok = true
							}
						}
					}
					return true
				})
			}
		}
		c.Check("C05-R5", f.Key()+" single-model test uses the decoder's end offset", c.Pos(f.Decl), ok, "ggufLayers must compare the offset returned by ggml.Decode with the file size")
	}
}

// writeSeq: Go types of the operands of binary.Write calls in n, in source order.
func writeSeq(info *types.Info, n ast.Node) []string {
	var out []string
	for _, call := range core.CallsTo(info, n, false, "encoding/binary.Write") {
		if t := info.Types[call.Args[2]].Type; t != nil {
			s := t.String()
			if s == "[]uint8" {
				s = "[]byte"
			}
			out = append(out, s)
		}
	}
	return out
}

// wev is one binary.Write reached from a node, with package-local writer helpers expanded in place.
type wev struct {
	typ string // Go type of the value written
	tag string // ggufType constant written, if the value is one
	op  string // first selector name in the operand ("" if none); for an expanded helper, that of the call's arguments
}

// writeEvents lists the binary.Write calls under n in source order; a call to a non-generic function of
// package fs/ggml that itself writes (to depth 2) is replaced by that function's events.
func writeEvents(c *Ctx, info *types.Info, n ast.Node, depth int) []wev {
	firstSel := func(e ast.Node) string {
		s := ""
		ast.Inspect(e, func(x ast.Node) bool {
			if se, ok := x.(*ast.SelectorExpr); ok && s == "" {
				s = se.Sel.Name
			}
			return true
		})
		return s
	}
	var out []wev
	for _, call := range core.Calls(n, false) {
		name := core.CalleeName(info, call)
		if name == "encoding/binary.Write" && len(call.Args) == 3 {
			ev := wev{op: firstSel(call.Args[2])}
			if t := info.Types[call.Args[2]].Type; t != nil {
				ev.typ = t.String()
				if ev.typ == "[]uint8" {
					ev.typ = "[]byte"
				}
			}
			if nm, _, is := tagConst(info, call.Args[2]); is {
				ev.tag = nm
			}
			out = append(out, ev)
			continue
		}
		if depth >= 2 || !strings.HasPrefix(name, ggmlPkg+".") {
			continue
		}
		h := c.P.LookupFunc(ggmlPkg, strings.TrimPrefix(name, ggmlPkg+"."))
		if h == nil || h.Decl == nil || h.Decl.Type.TypeParams != nil {
			continue
		}
		op := ""
		for _, a := range call.Args {
			if op == "" {
				op = firstSel(a)
			}
		}
		for _, ev := range writeEvents(c, h.Info(), h.Body, depth+1) {
			if ev.op == "" {
				ev.op = op
			}
			out = append(out, ev)
		}
	}
	return out
}

func evTypes(evs []wev) []string {
	var out []string
	for _, e := range evs {
		out = append(out, e.typ)
	}
	return out
}

func enclosingCase(root ast.Node, n ast.Node) (*ast.CaseClause, bool) {
	var found *ast.CaseClause
	ast.Inspect(root, func(x ast.Node) bool {
		if cc, ok := x.(*ast.CaseClause); ok && within(cc, n) {
			found = cc
		}
		return true
	})
	return found, found != nil
}

func calleeSet(info *types.Info, es ...ast.Expr) map[string]bool {
	out := map[string]bool{}
	for _, e := range es {
		if call, ok := ast.Unparen(e).(*ast.CallExpr); ok {
			out[core.CalleeName(info, call)] = true
		}
	}
	return out
}

func sortedKeys2(m map[string]int64) []string {
	var ks []string
	for k := range m {
		ks = append(ks, k)
	}
	sort.Strings(ks)
	return ks
}

// acceptedPaddingFormula: the body computes the distance from offset to the next multiple of align.
// The body is read as a decision tree over r = offset%align (single-assignment locals are substituted):
// every return reached when r == 0 must be a form that is zero there (0, r, -r, (align-r)%align) and
// every return reached when 0 < r < align must be align-r or (align-r)%align; the tests on the way
// may compare r with 0 or 1 only. `return (align - offset%align) % align` is the one-leaf tree.
func acceptedPaddingFormula(f *core.Func) (bool, string) {
	info := f.Info()
	var params []types.Object
	for _, fl := range f.Type.Params.List {
		for _, n := range fl.Names {
			params = append(params, info.Defs[n])
		}
	}
	if len(params) != 2 {
		return false, "not a function of (offset, align)"
	}
	var render func(e ast.Expr, depth int) string
	render = func(e ast.Expr, depth int) string {
		switch x := ast.Unparen(e).(type) {
		case *ast.Ident:
			o := info.ObjectOf(x)
			switch o {
			case params[0]:
				return "off"
			case params[1]:
				return "al"
			}
			if v, isV := o.(*types.Var); isV && depth < 4 {
				if rhs, idx, n := singleDef(info, f.Body, v); n == 1 && idx == -1 {
					return render(rhs, depth+1)
				}
			}
			return "?" + x.Name
		case *ast.BasicLit:
			return x.Value
		case *ast.UnaryExpr:
			return x.Op.String() + render(x.X, depth)
		case *ast.BinaryExpr:
			return "(" + render(x.X, depth) + x.Op.String() + render(x.Y, depth) + ")"
		case *ast.CallExpr:
			// a conversion between integer types keeps the value
			if len(x.Args) == 1 && info.Types[x.Fun].IsType() {
				return render(x.Args[0], depth)
			}
		}
		return "?" + core.ExprString(e)
	}
	const R = "(off%al)"
	zero := map[string]bool{"0": true, R: true, "-" + R: true, "((al-" + R + ")%al)": true}
	pos := map[string]bool{"(al-" + R + ")": true, "((al-" + R + ")%al)": true}
	// truth of a test under r == 0 / under 0 < r < al; ok=false if it is not a test of r against 0 or 1
	decide := func(cond ast.Expr, rZero bool) (val, ok bool) {
		be, isB := ast.Unparen(cond).(*ast.BinaryExpr)
		if !isB {
			return false, false
		}
		x, y, op := render(be.X, 0), render(be.Y, 0), be.Op
		if y == R {
			x, y = y, x
			switch op {
			case token.LSS:
				op = token.GTR
			case token.GTR:
				op = token.LSS
			case token.LEQ:
				op = token.GEQ
			case token.GEQ:
				op = token.LEQ
			}
		}
		if x != R || (y != "0" && y != "1") {
			return false, false
		}
		k := int64(0)
		if y == "1" {
			k = 1
		}
		if rZero {
			switch op {
			case token.EQL:
				return 0 == k, true
			case token.NEQ:
				return 0 != k, true
			case token.LSS:
				return 0 < k, true
			case token.LEQ:
				return 0 <= k, true
			case token.GTR:
				return false, true
			case token.GEQ:
				return 0 >= k, true
			}
			return false, false
		}
		// r >= 1, and r may be 1 or more
		switch {
		case op == token.GTR && k == 0, op == token.NEQ && k == 0, op == token.GEQ:
			return true, true
		case op == token.EQL && k == 0, op == token.LEQ && k == 0, op == token.LSS:
			return false, true
		}
		return false, false
	}
	var leaf func(stmts []ast.Stmt, rZero bool) (string, bool)
	leaf = func(stmts []ast.Stmt, rZero bool) (string, bool) {
		for _, st := range stmts {
			switch x := st.(type) {
			case *ast.ReturnStmt:
				if len(x.Results) != 1 {
					return "return without a value", false
				}
				return render(x.Results[0], 0), true
			case *ast.AssignStmt:
				blank := true
				for _, l := range x.Lhs {
					if id, isID := l.(*ast.Ident); !isID || id.Name != "_" {
						blank = false
					}
				}
				if x.Tok != token.DEFINE && !blank {
					return "assignment " + core.ExprString(x.Lhs[0]), false
				}
			case *ast.DeclStmt, *ast.EmptyStmt:
			case *ast.IfStmt:
				if x.Init != nil {
					if as, isAs := x.Init.(*ast.AssignStmt); !isAs || as.Tok != token.DEFINE {
						return "if with a side effect", false
					}
				}
				v, ok := decide(x.Cond, rZero)
				if !ok {
					return "test " + core.ExprString(x.Cond) + " is not a comparison of offset%align with 0", false
				}
				var branch []ast.Stmt
				switch {
				case v:
					branch = x.Body.List
				case x.Else != nil:
					if bl, isBl := x.Else.(*ast.BlockStmt); isBl {
						branch = bl.List
					} else {
						branch = []ast.Stmt{x.Else}
					}
				}
				if r, done := leaf(branch, rZero); done || r != "" {
					return r, done
				}
			default:
				return "statement with effects", false
			}
		}
		return "", false
	}
	z, okZ := leaf(f.Body.List, true)
	p, okP := leaf(f.Body.List, false)
	form := "aligned offset: " + z + "; unaligned offset: " + p
	return okZ && okP && zero[z] && pos[p], form
}

// lenOfParam: e is conv(len(p)) for the idx-th parameter p of f.
func lenOfParam(info *types.Info, f *core.Func, e ast.Expr, idx int) bool {
	found := false
	ast.Inspect(e, func(n ast.Node) bool {
		if call, ok := n.(*ast.CallExpr); ok && core.CalleeName(info, call) == "builtin.len" && len(call.Args) == 1 {
			if id, isID := ast.Unparen(call.Args[0]).(*ast.Ident); isID && info.Uses[id] == paramAt(f, idx) {
				found = true
			}
		}
		return true
	})
	return found
}

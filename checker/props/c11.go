package props

import (
	"go/ast"
	"go/token"
	"go/types"

	"verifcheck/core"
)

func init() {
	register(&Prop{ID: "C11", Pkgs: []string{"server"}, Run: runC11})
}

func runC11(c *Ctx) {
	m := newSchedModel(c, "C11-R1")
	info := m.info

	// ------------------------------------------------------------------ R1
	c.Rule("C11-R1", "who may insert into the loaded map: only Scheduler.load, synchronously in its own body (not in the goroutine it starts), under loadedMu — so the count the single scheduler loop read cannot be stale")
	nIns := 0
	for _, fn := range m.lc.fns {
		core.InspectShallow(fn.Body, func(n ast.Node) bool {
			as, ok := n.(*ast.AssignStmt)
			if !ok {
				return true
			}
			for _, l := range as.Lhs {
				ix, isIx := ast.Unparen(l).(*ast.IndexExpr)
				if !isIx || core.FieldVar(info, ix.X) != m.fLoaded {
					continue
				}
				nIns++
				c.Check("C11-R1", fn.Key()+" insert:loaded", c.Pos(as), fn.Name == "Scheduler.load" && fn.Lit == nil, "only Scheduler.load's own body may insert a runner")
				c.Check("C11-R1", fn.Key()+" insert:loaded under loadedMu", c.Pos(as), m.lc.heldAt(as).HasClass(m.fLoadedMu), "held: "+joinNames(m.lc.heldAt(as)))
			}
			return true
		})
		// whole-map replacement
		for _, st := range m.fieldStores(m.fLoaded) {
			if st.Fn == fn && !st.Lit {
				c.Check("C11-R1", fn.Key()+" store:Scheduler.loaded", c.Pos(st.Node), false, "the loaded map itself must not be replaced")
			}
		}
	}
	c.Expect("C11-R1", "inserts into loaded", nIns, 1)

	// ------------------------------------------------------------------ R2 / R3 / R4
	c.Rule("C11-R2", "a new runner is started (call through loadFn) only on the miss edge of the look-up of the request's model and on the false edge of the capacity test MaxRunners() > 0 && loadedCount >= MaxRunners(), where loadedCount is len(loaded) read in the same loadedMu section as the look-up; when MaxRunners() <= 0 the automatic limit is set before any load")
	c.Rule("C11-R3", "at capacity (and whenever a victim was chosen) the next disposition is preceded by a receive from unloadedCh")
	c.Rule("C11-R4", "a loaded runner is reused only on the false edge of its own needsReload; needsReload returns true when the runner is torn down, when adapters, projectors or runner options differ, or when the ping fails")
	if f := m.lc.fn("Scheduler.processPending"); f != nil {
		g := c.G(f)
		loads := g.Find(func(n ast.Node) bool {
			call, ok := n.(*ast.CallExpr)
			return ok && core.Callee(info, call) == types.Object(m.fLoadFn)
		})
		c.Expect("C11-R2", "loadFn calls in processPending", len(loads), 4)
		// the look-up and the count
		var runnerVar, countVar types.Object
		var lookupLoc core.Loc
		for _, h := range g.Find(func(n ast.Node) bool {
			as, ok := n.(*ast.AssignStmt)
			if !ok || len(as.Rhs) != 1 {
				return false
			}
			ix, isIx := ast.Unparen(as.Rhs[0]).(*ast.IndexExpr)
			return isIx && core.FieldVar(info, ix.X) == m.fLoaded
		}) {
			as := h.Node.(*ast.AssignStmt)
			if id, ok := as.Lhs[0].(*ast.Ident); ok {
				runnerVar = info.Defs[id]
				if runnerVar == nil {
					runnerVar = info.Uses[id]
				}
				lookupLoc = h.Loc
				ix := ast.Unparen(as.Rhs[0]).(*ast.IndexExpr)
				c.Check("C11-R2", f.Key()+" look-up keyed by the request's model path", c.Pos(as), selName(ix.Index) == "ModelPath" && mentionsSel(ix.Index, "model"), "the look-up must use pending.model.ModelPath")
			}
		}
		for _, h := range g.Find(func(n ast.Node) bool {
			as, ok := n.(*ast.AssignStmt)
			if !ok || len(as.Rhs) != 1 {
				return false
			}
			p, isLen := isLenOf(info, as.Rhs[0])
			return isLen && p.Last() == m.fLoaded
		}) {
			as := h.Node.(*ast.AssignStmt)
			if id, ok := as.Lhs[0].(*ast.Ident); ok {
				countVar = info.Defs[id]
				// same critical section as the look-up
				same := m.lc.flow[f].Before[h.Loc].HasClass(m.fLoadedMu) && lookupLoc.Valid() && m.lc.flow[f].Before[lookupLoc].HasClass(m.fLoadedMu) && h.Loc.B == lookupLoc.B
				c.Check("C11-R2", f.Key()+" count read with the look-up under loadedMu", c.Pos(as), same, "len(loaded) and the look-up must be read in one loadedMu critical section")
			}
		}
		if runnerVar == nil || countVar == nil {
			c.Undecided("C11-R2", "anchor:look-up/count in processPending", "-", "anchor lost: runner := s.loaded[...] / loadedCount := len(s.loaded)")
		}
		isCapTest := func(e ast.Expr) bool {
			// MaxRunners() > 0 && loadedCount >= int(MaxRunners())
			be, ok := ast.Unparen(e).(*ast.BinaryExpr)
			if !ok || be.Op != token.GEQ || countVar == nil {
				return false
			}
			return core.UsesObj(info, be.X, countVar) && len(core.CallsTo(info, be.Y, false, "envconfig.MaxRunners")) == 1
		}
		for i, h := range loads {
			miss, below := false, false
			for _, a := range g.AtomsAt(h.Loc) {
				if x, eq, isNil := core.IsNilCheck(info, a.Expr); isNil && runnerVar != nil {
					if id, ok := ast.Unparen(x).(*ast.Ident); ok && info.Uses[id] == runnerVar && eq == a.Val {
						miss = true
					}
				}
			}
			for _, fct := range g.Facts(h.Loc) {
				if fct.Val {
					continue
				}
				// whole condition false: MaxRunners() > 0 && count >= MaxRunners()
				if be, ok := ast.Unparen(fct.Expr).(*ast.BinaryExpr); ok && be.Op == token.LAND && isCapTest(be.Y) && len(core.CallsTo(info, be.X, false, "envconfig.MaxRunners")) == 1 {
					below = true
				}
				if isCapTest(fct.Expr) {
					below = true
				}
			}
			c.Check("C11-R2", f.Key()+" call:loadFn#"+itoa(i+1)+" on miss and below capacity", c.Pos(h.Node), miss && below, "a load must be on the nil edge of the look-up and the false edge of the capacity test")
		}
		// automatic limit set before any load: no path from the entry reaches a load unless it passed the
		// os.Setenv of the limit or left a test of exactly `MaxRunners() <= 0` on its false edge (a test with
		// a further conjunct — "… && NumGPU != 0" — does not establish that a limit exists)
		isSetLimit := func(n ast.Node) bool {
			for _, se := range core.CallsTo(info, n, false, "os.Setenv") {
				if k, isS := core.ConstString(info, se.Args[0]); isS && k == "OLLAMA_MAX_LOADED_MODELS" {
					return true
				}
			}
			return false
		}
		nTests := 0
		before, _ := g.CountPathsEdges(g.Entry(), func(ast.Node) int { return 0 }, func(n ast.Node, l core.Loc) bool { return isSetLimit(n) }, nil,
			func(cond ast.Expr, takenTrue bool) bool {
				be, ok := ast.Unparen(cond).(*ast.BinaryExpr)
				if !ok || len(core.CallsTo(info, be.X, false, "envconfig.MaxRunners")) != 1 {
					return true
				}
				if _, isCall := ast.Unparen(be.X).(*ast.CallExpr); !isCall {
					return true
				}
				v, isC := core.ConstInt(info, be.Y)
				if !isC {
					return true
				}
				// the edge on which a positive limit is known is never "unlimited"
				switch {
				case (be.Op == token.LEQ && v == 0) || (be.Op == token.LSS && v == 1) || (be.Op == token.EQL && v == 0):
					nTests++
					return takenTrue
				case (be.Op == token.GTR && v == 0) || (be.Op == token.GEQ && v == 1) || (be.Op == token.NEQ && v == 0):
					nTests++
					return !takenTrue
				}
				return true
			})
		for i, ld := range loads {
			_, unlimited := before[ld.Loc]
			c.Check("C11-R2", f.Key()+" call:loadFn#"+itoa(i+1)+" only with a limit in force", c.Pos(ld.Node), !unlimited && nTests > 0, "with MaxRunners() <= 0 this load is reachable without OLLAMA_MAX_LOADED_MODELS having been set (the automatic limit must be established by whichever request comes first)")
		}
		// R3: after a victim is chosen, no disposition before the unloadedCh receive
		nV := 0
		// the victim variable: the runner this function itself posts on expiredCh
		var victimObj types.Object
		for _, op := range m.opsOn(m.fExpired, true) {
			if op.Fn.Key() == f.Key() && op.Fn.Lit == nil {
				if id, isID := ast.Unparen(op.Node.(*ast.SendStmt).Value).(*ast.Ident); isID {
					victimObj = info.Uses[id]
				}
			}
		}
		for _, h := range g.Find(func(n ast.Node) bool {
			as, ok := n.(*ast.AssignStmt)
			if !ok || len(as.Lhs) != 1 || len(as.Rhs) != 1 {
				return false
			}
			id, isID := as.Lhs[0].(*ast.Ident)
			if !isID || victimObj == nil || info.ObjectOf(id) != victimObj {
				return false
			}
			if rid, isR := ast.Unparen(as.Rhs[0]).(*ast.Ident); isR {
				_, isNil := info.Uses[rid].(*types.Nil)
				return !isNil
			}
			return true
		}) {
			nV++
			bad := ""
			g.Walk(h.Loc, func(n ast.Node, l core.Loc) bool {
				// stop at the receive from unloadedCh (select arm) and at the nil-victim retry
				stop := false
				core.InspectShallow(n, func(x ast.Node) bool {
					if u, ok := x.(*ast.UnaryExpr); ok && u.Op == token.ARROW && m.chanFieldOf(u.X, f) == m.fUnloaded {
						stop = true
					}
					return true
				})
				if stop {
					return true
				}
				if _, isRet := n.(*ast.ReturnStmt); isRet {
					return true
				}
				if br, isBr := n.(*ast.BranchStmt); isBr {
					if fs, isFor := core.BranchTarget(f.Body, br).(*ast.ForStmt); isFor && fs.Cond == nil {
						return true // leaves or restarts the placement attempt
					}
				}
				// a nil victim from maybeFindCPURunnerToUnload means "fits": loads on that edge are fine
				if m.dispositions(f, n) > 0 {
					nilVictim := false
					for _, a := range g.AtomsAt(l) {
						if x, eq, isNil := core.IsNilCheck(info, a.Expr); isNil && eq == a.Val {
							if id, ok := ast.Unparen(x).(*ast.Ident); ok && info.Uses[id] == victimObj {
								nilVictim = true
							}
						}
					}
					if !nilVictim {
						bad = c.Pos(n)
					}
				}
				return false
			})
			c.Check("C11-R3", f.Key()+" victim#"+itoa(nV)+" then wait for the unload event", c.Pos(h.Node), bad == "", "a disposition is reachable after choosing a victim without waiting on unloadedCh: "+bad)
		}
		c.Expect("C11-R3", "victim selections in processPending", nV, 4)
		// R4
		uses := g.FindCalls("server.LlmRequest.useLoadedRunner")
		c.Expect("C11-R4", "useLoadedRunner calls in processPending", len(uses), 1)
		for _, u := range uses {
			arg := core.PathOf(info, u.Node.(*ast.CallExpr).Args[0])
			ok := false
			for _, a := range g.AtomsAt(u.Loc) {
				ae := ast.Unparen(a.Expr)
				if id, isId := ae.(*ast.Ident); isId { // stale := runner.needsReload(ctx, pending)
					if v, isV := info.Uses[id].(*types.Var); isV {
						if rhs, _, cnt := singleDef(info, f.Body, v); cnt == 1 && rhs != nil {
							ae = ast.Unparen(rhs)
						}
					}
				}
				call, isC := ae.(*ast.CallExpr)
				if !isC || a.Val || core.CalleeName(info, call) != "server.runnerRef.needsReload" {
					continue
				}
				if p := core.PathOf(info, call.Fun.(*ast.SelectorExpr).X); p.Valid() && arg.Valid() && p.Key() == arg.Key() {
					ok = true
				}
			}
			nonNil := false
			if arg.Valid() {
				if isNil, known := g.ObjNilFact(u.Loc, arg.Root); known && !isNil {
					nonNil = true
				}
			}
			c.Check("C11-R4", f.Key()+" reuse only behind !needsReload of the same runner", c.Pos(u.Node), ok && nonNil && arg.Root == runnerVar, "useLoadedRunner(r) must be on the false edge of r.needsReload(...) for the runner that was looked up")
		}
	}
	if f := m.lc.fn("runnerRef.needsReload"); f != nil {
		g := c.G(f)
		var have = map[string]bool{}
		for _, ex := range g.Returns() {
			// conditions under which this return answers true: the tests passed on the way to a `return true`,
			// and the returned expression itself when it is not a literal
			facts := g.Facts(ex.Loc)
			if id, ok := ast.Unparen(ex.Return.Results[0]).(*ast.Ident); ok && (id.Name == "true" || id.Name == "false") {
				if id.Name == "false" {
					continue
				}
			} else {
				facts = []core.Fact{{Expr: ex.Return.Results[0], Val: true}}
			}
			for _, fct := range facts {
				// terms with their polarity: a true disjunction proves nothing about one term, but every return
				// below it is reached when any term holds; a false test is one negated term
				type term struct {
					e   ast.Expr
					pol bool
				}
				var terms []term
				var split func(e ast.Expr)
				split = func(e ast.Expr) {
					if be, ok := ast.Unparen(e).(*ast.BinaryExpr); ok && be.Op == token.LOR {
						split(be.X)
						split(be.Y)
						return
					}
					terms = append(terms, term{e, true})
				}
				if fct.Val {
					split(fct.Expr)
				} else if be, isB := ast.Unparen(fct.Expr).(*ast.BinaryExpr); !isB || (be.Op != token.LAND && be.Op != token.LOR) {
					terms = append(terms, term{fct.Expr, false})
				}
				for _, tm := range terms {
					t, pol := tm.e, tm.pol
					for {
						u, ok := ast.Unparen(t).(*ast.UnaryExpr)
						if !ok || u.Op != token.NOT {
							break
						}
						t, pol = u.X, !pol
					}
					if x, eq, isNil := core.IsNilCheck(info, t); isNil && eq == pol && core.FieldVar(info, x) == m.fOptions {
						have["torn-down"] = true
					}
					if call, ok := ast.Unparen(t).(*ast.CallExpr); ok && !pol && core.CalleeName(info, call) == "reflect.DeepEqual" {
						a, b := call.Args[0], call.Args[1]
						switch {
						case selName(a) == "AdapterPaths" && selName(b) == "AdapterPaths" && core.ExprString(a) != core.ExprString(b):
							have["adapters"] = true
						case selName(a) == "ProjectorPaths" && selName(b) == "ProjectorPaths" && core.ExprString(a) != core.ExprString(b):
							have["projectors"] = true
						default:
							// runner options of both sides
							pa, pb := core.PathOf(info, a), core.PathOf(info, b)
							if pa.Valid() && pb.Valid() && derivesFromSel(g, pa.Root, "Runner") && derivesFromSel(g, pb.Root, "Runner") && pa.Root != pb.Root {
								have["options"] = true
							}
						}
					}
					if x, eq, isNil := core.IsNilCheck(info, t); isNil && eq != pol && len(core.CallsTo(info, x, false, "llm.LlamaServer.Ping")) == 1 {
						have["ping"] = true
					}
				}
			}
		}
		for _, k := range []string{"torn-down", "adapters", "projectors", "options", "ping"} {
			c.Check("C11-R4", f.Key()+" reload when "+k+" differs/fails", c.Pos(f.Decl), have[k], "needsReload has no `return true` controlled by this condition")
		}
		// the option comparison normalises NumCtx by numParallel
		norm := false
		ast.Inspect(f.Body, func(n ast.Node) bool {
			if as, ok := n.(*ast.AssignStmt); ok && len(as.Lhs) == 1 && selName(as.Lhs[0]) == "NumCtx" {
				if be, ok := ast.Unparen(as.Rhs[0]).(*ast.BinaryExpr); ok && be.Op == token.QUO && selName(be.Y) == "numParallel" {
					norm = true
				}
			}
			return true
		})
		c.Check("C11-R4", f.Key()+" NumCtx normalised by numParallel", c.Pos(f.Decl), norm, "the loaded runner's NumCtx must be divided by its numParallel before comparing with the request")
	}

	// ------------------------------------------------------------------ R5
	c.Rule("C11-R5", "idle first: findRunnerToUnload collects every loaded runner under loadedMu (itself or through a helper that does nothing else), returns from a loop over all candidates the first whose refCount (read under its refMu) is zero, and falls back only after that loop")
	if f := m.lc.fn("Scheduler.findRunnerToUnload"); f != nil {
		g := c.G(f)
		var listObj types.Object
		okCollect, okLoop, okFallback := false, false, false
		// the list is filled in this function, or by a helper that does nothing else (snapshotCall)
		listObj, okCollect = m.snapshotLocal(f)
		// the scan: a range over the list, or an index loop over all of it with the element read from list[i]
		var loopStmt ast.Stmt
		var loopHead ast.Node
		type scan struct {
			stmt ast.Stmt
			head ast.Node
			elem types.Object
		}
		var scans []scan
		for _, rl := range rangeLoops(f) {
			if m.snapshotCall(rl.Stmt.X) {
				okCollect = true // ranges over the helper's result directly
			} else if rl.Over == nil || rl.Over != listObj {
				continue
			}
			if vid, _ := rl.Stmt.Value.(*ast.Ident); vid != nil {
				scans = append(scans, scan{rl.Stmt, rl.Stmt.X, info.Defs[vid]})
			} else {
				scans = append(scans, scan{rl.Stmt, rl.Stmt.X, nil})
			}
		}
		ast.Inspect(f.Body, func(n ast.Node) bool {
			fs, ok := n.(*ast.ForStmt)
			if !ok || fs.Init == nil || fs.Cond == nil || fs.Post == nil || listObj == nil {
				return true
			}
			init, isAs := fs.Init.(*ast.AssignStmt)
			post, isInc := fs.Post.(*ast.IncDecStmt)
			cond, isB := ast.Unparen(fs.Cond).(*ast.BinaryExpr)
			if !isAs || !isInc || !isB || post.Tok != token.INC || cond.Op != token.LSS || len(init.Lhs) != 1 || len(init.Rhs) != 1 {
				return true
			}
			iv, isID := init.Lhs[0].(*ast.Ident)
			if z, isC := core.ConstInt(info, init.Rhs[0]); !isID || !isC || z != 0 || !isIdentOf(info, post.X, info.ObjectOf(iv)) || !isIdentOf(info, cond.X, info.ObjectOf(iv)) {
				return true
			}
			if p, isLen := isLenOf(info, cond.Y); !isLen || p.Root != listObj || len(p.Fields) != 0 {
				return true
			}
			// elem := list[i]
			var elem types.Object
			ast.Inspect(fs.Body, func(x ast.Node) bool {
				as, isA := x.(*ast.AssignStmt)
				if !isA || len(as.Lhs) != 1 || len(as.Rhs) != 1 {
					return true
				}
				ix, isIx := ast.Unparen(as.Rhs[0]).(*ast.IndexExpr)
				if isIx && isIdentOf(info, ix.X, listObj) && isIdentOf(info, ix.Index, info.ObjectOf(iv)) {
					if eid, isE := as.Lhs[0].(*ast.Ident); isE {
						elem = info.ObjectOf(eid)
					}
				}
				return true
			})
			scans = append(scans, scan{fs, fs.Cond, elem})
			return true
		})
		// refCount is zero (nobody uses the runner) given that e evaluates to val; locals are followed to their definition
		var idleFact func(e ast.Expr, val bool, elem types.Object, depth int) bool
		idleFact = func(e ast.Expr, val bool, elem types.Object, depth int) bool {
			e = ast.Unparen(e)
			if id, isID := e.(*ast.Ident); isID && depth < 2 {
				if v, isV := info.ObjectOf(id).(*types.Var); isV && !v.IsField() {
					if rhs, idx, n := singleDef(info, f.Body, v); n == 1 && idx == -1 && rhs != nil {
						return idleFact(rhs, val, elem, depth+1)
					}
				}
				return false
			}
			be, ok := e.(*ast.BinaryExpr)
			if !ok {
				return false
			}
			k, isC := core.ConstInt(info, be.Y)
			if !isC {
				return false
			}
			zero := false
			switch {
			case (be.Op == token.EQL || be.Op == token.LEQ) && k == 0, be.Op == token.LSS && k == 1:
				zero = val
			case (be.Op == token.NEQ || be.Op == token.GTR) && k == 0, be.Op == token.GEQ && k == 1:
				zero = !val
			}
			if !zero {
				return false
			}
			// be.X is refCount directly or a local read from it under refMu
			if core.FieldVar(info, be.X) == m.fRefCount {
				return core.UsesObj(info, be.X, elem) && m.ownerLockHeld(be.X, m.fRefMu, be)
			}
			if id, ok := ast.Unparen(be.X).(*ast.Ident); ok {
				for _, as := range g.AssignsTo(info.Uses[id]) {
					if a2, ok := as.Node.(*ast.AssignStmt); ok && core.FieldVar(info, a2.Rhs[0]) == m.fRefCount &&
						core.UsesObj(info, a2.Rhs[0], elem) && m.ownerLockHeld(a2.Rhs[0], m.fRefMu, a2) {
						return true
					}
				}
			}
			return false
		}
		for _, sc := range scans {
			for _, ex := range g.Returns() {
				if !within(sc.stmt, ex.Return) || sc.elem == nil {
					continue
				}
				if id, ok := ast.Unparen(ex.Return.Results[0]).(*ast.Ident); !ok || info.Uses[id] != sc.elem {
					continue
				}
				for _, a := range g.AtomsAt(ex.Loc) {
					if idleFact(a.Expr, a.Val, sc.elem, 0) {
						okLoop = true
					}
				}
			}
			loopStmt, loopHead = sc.stmt, sc.head
		}
		// every return of a runner outside the idle scan comes after the whole scan
		nFallback, early := 0, ""
		for _, ex := range g.Returns() {
			if loopStmt == nil || len(ex.Return.Results) != 1 || core.ExprString(ex.Return.Results[0]) == "nil" || within(loopStmt, ex.Return) {
				continue
			}
			nFallback++
			if !(g.Dominates(g.Locate(loopHead), ex.Loc) && ex.Return.Pos() > loopStmt.End()) {
				early = c.Pos(ex.Return)
			}
		}
		okFallback = nFallback >= 1 && early == ""
		c.Check("C11-R5", f.Key()+" candidates = all loaded runners", c.Pos(f.Decl), okCollect, "the candidate list must be every value of the loaded map, collected under loadedMu")
		c.Check("C11-R5", f.Key()+" idle runner returned from the loop", c.Pos(f.Decl), okLoop, "the loop over the candidates must return a runner on the true edge of refCount == 0 read under its refMu")
		c.Check("C11-R5", f.Key()+" fallback only after the loop", c.Pos(f.Decl), okFallback, "a runner may be returned outside the idle scan only after the loop over all candidates (a return before it can pick a busy victim while an idle runner exists): "+early)
	}

	// ------------------------------------------------------------------ R6
	c.Rule("C11-R6", "fit chain of custody: with other models loaded, the GPU list given to loadFn is the non-nil result of pickBestFullFitByLibrary over the list that filterGPUsWithoutLoadingModels returned and updateFreeSpace adjusted; inside pickBestFullFitByLibrary every non-nil return is on the ok edge of a PredictServerFit call whose GPU argument is the list returned")
	if f := m.lc.fn("Scheduler.processPending"); f != nil {
		g := c.G(f)
		n := 0
		for _, h := range g.Find(func(n ast.Node) bool {
			call, ok := n.(*ast.CallExpr)
			return ok && core.Callee(info, call) == types.Object(m.fLoadFn)
		}) {
			call := h.Node.(*ast.CallExpr)
			gp := core.PathOf(info, call.Args[2])
			if !gp.Valid() {
				continue
			}
			// only the "other models loaded" site: the list variable is assigned from pickBestFullFitByLibrary and nowhere else
			as := g.AssignsTo(gp.Root)
			if len(as) != 1 || len(core.CallsTo(info, as[0].Node, false, "server.pickBestFullFitByLibrary")) != 1 {
				continue
			}
			n++
			pick := core.CallsTo(info, as[0].Node, false, "server.pickBestFullFitByLibrary")[0]
			nonNil := false
			if isNil, known := g.ObjNilFact(h.Loc, gp.Root); known && !isNil {
				nonNil = true
			}
			av := core.PathOf(info, pick.Args[2])
			okFilter, okUpdate := false, false
			if av.Valid() {
				for _, a2 := range g.AssignsTo(av.Root) {
					if len(core.CallsTo(info, a2.Node, false, "server.Scheduler.filterGPUsWithoutLoadingModels")) == 1 && len(g.AssignsTo(av.Root)) == 1 {
						okFilter = true
					}
				}
				for _, u := range g.FindCalls("server.Scheduler.updateFreeSpace") {
					if p := core.PathOf(info, u.Node.(*ast.CallExpr).Args[0]); p.Valid() && p.Key() == av.Key() && g.Dominates(u.Loc, as[0].Loc) {
						okUpdate = true
					}
				}
			}
			c.Check("C11-R6", f.Key()+" load next to other models uses the predicted-fit GPU list", c.Pos(call), nonNil && okFilter && okUpdate,
				"loadFn's GPU list must be the non-nil pickBestFullFitByLibrary result over filterGPUsWithoutLoadingModels(gpus) after updateFreeSpace")
		}
		c.Expect("C11-R6", "loads placed by predicted fit next to other models", n, 1)
	}
	if f := m.lc.fn("pickBestFullFitByLibrary"); f != nil {
		g := c.G(f)
		n := 0
		for _, ex := range g.Returns() {
			r := ast.Unparen(ex.Return.Results[0])
			if id, ok := r.(*ast.Ident); ok {
				if _, isNil := info.Uses[id].(*types.Nil); isNil {
					continue
				}
			}
			n++
			ok := false
			for _, a := range g.Atoms2(ex.Loc) {
				if !a.Val {
					continue
				}
				// `ok` assigned in the condition's init from PredictServerFit(<list>, ...)
				id, isID := ast.Unparen(a.Expr).(*ast.Ident)
				if !isID {
					continue
				}
				for _, as := range g.AssignsTo(info.Uses[id]) {
					if !g.Dominates(as.Loc, ex.Loc) || as.Loc.B != a.Blk {
						continue
					}
					for _, ps := range core.CallsTo(info, as.Node, false, "llm.PredictServerFit") {
						if core.ExprString(ps.Args[0]) == core.ExprString(r) {
							ok = true
						}
					}
				}
			}
			c.Check("C11-R6", f.Key()+" non-nil return is a predicted fit", c.Pos(ex.Return), ok, "a GPU list may be returned only on the ok edge of PredictServerFit called with that very list in the same iteration")
		}
		c.Expect("C11-R6", "non-nil returns of pickBestFullFitByLibrary", n, 2)
	}

	// ------------------------------------------------------------------ R7
	c.Rule("C11-R7", "the loaded map is the truth about running runners: an entry is removed only by identity, in the same loadedMu critical section in which that runner was shut down (so a live runner is never uncounted and a closed one never listed)")
	if f := m.lc.fn("Scheduler.processCompleted"); f != nil {
		g := c.G(f)
		for _, d := range g.FindCalls("builtin.delete") {
			dc := d.Node.(*ast.CallExpr)
			if core.FieldVar(info, dc.Args[0]) != m.fLoaded {
				continue
			}
			unl := g.FindCalls("server.runnerRef.unload")
			dom := g.DominatingHit(unl, d.Loc)
			same := false
			if dom != nil {
				// loadedMu held continuously from the unload to the delete
				same = true
				flow := m.lc.flow[f]
				for _, l := range g.Between(dom.Loc, d.Loc) {
					if !flow.Before[l].HasClass(m.fLoadedMu) {
						same = false
					}
				}
				if !m.lc.flow[f].Before[dom.Loc].HasClass(m.fLoadedMu) {
					same = false
				}
			}
			c.Check("C11-R7", f.Key()+" delete:loaded after unload in one loadedMu section", c.Pos(dc), dom != nil && same, "the entry must leave the map only after (and atomically with) the shutdown of its runner; removing it first lets a second runner start while the old one is still alive")
		}
	}
	ruleDeleteByIdentity(c, m, "C11-R7")
	nDel := 0
	for _, fn := range m.lc.fns {
		for _, call := range core.Calls(fn.Body, false) {
			if core.CalleeName(info, call) == "builtin.delete" && core.FieldVar(info, call.Args[0]) == m.fLoaded {
				nDel++
				c.Check("C11-R7", fn.Key()+" delete:loaded site", c.Pos(call), fn.Name == "Scheduler.processCompleted", "only the unload path may remove entries")
			}
		}
	}
	c.Expect("C11-R7", "delete(s.loaded) sites", nDel, 1)

	// ------------------------------------------------------------------ R8
	c.Rule("C11-R8", "the requested context size is captured once per request: LlmRequest.origNumCtx is stored only on the true edge of `origNumCtx == 0` (a re-queued request must not re-capture the value that pickBestFullFitByLibrary already scaled by the parallel setting)")
	nO := 0
	for _, st := range m.fieldStores(m.fOrigNumCtx) {
		if st.Lit {
			continue
		}
		nO++
		g := c.G(st.Fn)
		ok := false
		for _, a := range g.AtomsAt(g.Locate(st.Node)) {
			if be, isB := ast.Unparen(a.Expr).(*ast.BinaryExpr); isB && be.Op == token.EQL && a.Val && core.FieldVar(info, be.X) == m.fOrigNumCtx {
				if v, isC := core.ConstInt(info, be.Y); isC && v == 0 {
					ok = true
				}
			}
		}
		c.Check("C11-R8", st.Fn.Key()+" store:LlmRequest.origNumCtx once", c.Pos(st.Node), ok, "origNumCtx must only be captured while it is still zero")
	}
	c.Expect("C11-R8", "stores to origNumCtx", nO, 1)
}

// derivesFromSel: every assignment of o has a right-hand side selecting field `name`.
func derivesFromSel(g *core.Graph, o types.Object, name string) bool {
	as := g.AssignsTo(o)
	if len(as) == 0 {
		return false
	}
	first := as[0]
	return mentionsSel(first.Node, name)
}

package props

import (
	"go/ast"
	"go/types"

	"verifcheck/core"
)

// lockCtx holds, for every function and literal of one package, the must-lockset
// dataflow with an entry set derived from its callers (E2 of DESIGN.md).
type lockCtx struct {
	c     *Ctx
	rel   string
	fns   []*core.Func                  // declared functions and all literals
	byObj map[types.Object]*core.Func   // declared functions by object
	byLit map[*ast.FuncLit]*core.Func   // literals
	flow  map[*core.Func]*core.LockFlow // result
	entry map[*core.Func]core.LockSet   // entry sets
	field map[*types.Var][]*core.Func   // func-typed struct field -> functions assigned to it
	sites map[*core.Func][]callSite     // in-package call sites per callee
	esc   map[*core.Func]bool           // function used as a value (address taken)
}

type callSite struct {
	caller *core.Func
	call   *ast.CallExpr
}

func buildLockCtx(c *Ctx, rel string) *lockCtx {
	lc := &lockCtx{c: c, rel: rel, byObj: map[types.Object]*core.Func{}, byLit: map[*ast.FuncLit]*core.Func{},
		flow: map[*core.Func]*core.LockFlow{}, entry: map[*core.Func]core.LockSet{}, field: map[*types.Var][]*core.Func{},
		sites: map[*core.Func][]callSite{}, esc: map[*core.Func]bool{}}
	for _, f := range c.P.FuncsOf(rel) {
		lc.fns = append(lc.fns, f)
		if f.Obj != nil {
			lc.byObj[f.Obj] = f
		}
		for _, l := range f.Lits() {
			// re-parent to the nearest enclosing function
			lc.fns = append(lc.fns, l)
			lc.byLit[l.Lit] = l
		}
	}
	// fix literal parents (Lits() sets Parent to the function it was called on)
	for _, f := range lc.fns {
		if f.Lit == nil {
			continue
		}
		root := f.Parent
		if enc := core.EnclosingLit(root.Body, f.Lit); enc != nil {
			if p := lc.byLit[enc]; p != nil {
				f.Parent = p
			}
		}
	}
	info := c.P.Pkgs[rel].TypesInfo
	// function values stored into func-typed fields
	for _, f := range lc.fns {
		core.InspectShallow(f.Body, func(n ast.Node) bool {
			switch x := n.(type) {
			case *ast.AssignStmt:
				for i, l := range x.Lhs {
					fv := core.FieldVar(info, l)
					if fv == nil || i >= len(x.Rhs) {
						continue
					}
					lc.bindFieldFunc(info, fv, x.Rhs[i])
				}
			case *ast.KeyValueExpr:
				if id, ok := x.Key.(*ast.Ident); ok {
					if fv, ok := info.Uses[id].(*types.Var); ok && fv.IsField() {
						lc.bindFieldFunc(info, fv, x.Value)
					}
				}
			}
			return true
		})
	}
	// call sites and escapes
	for _, f := range lc.fns {
		calledFun := map[ast.Expr]bool{}
		selIdent := map[*ast.Ident]bool{}
		core.InspectShallow(f.Body, func(n ast.Node) bool {
			call, ok := n.(*ast.CallExpr)
			if !ok {
				return true
			}
			calledFun[ast.Unparen(call.Fun)] = true
			for _, t := range lc.targets(info, call) {
				lc.sites[t] = append(lc.sites[t], callSite{f, call})
			}
			return true
		})
		core.InspectShallow(f.Body, func(n ast.Node) bool {
			var o types.Object
			switch x := n.(type) {
			case *ast.SelectorExpr:
				selIdent[x.Sel] = true
				if calledFun[x] {
					return true
				}
				o = info.Uses[x.Sel]
			case *ast.Ident:
				if calledFun[x] || selIdent[x] {
					return true
				}
				o = info.Uses[x]
			}
			if fo, ok := o.(*types.Func); ok {
				if t := lc.byObj[fo.Origin()]; t != nil {
					// a selector that is the Fun of a call was handled; here the function is used as a value
					lc.esc[t] = true
				}
			}
			return true
		})
	}
	// func-field bound functions are not "escaped" for our purposes when every use of the field is a call
	for _, ts := range lc.field {
		for _, t := range ts {
			lc.esc[t] = false
		}
	}
	// fixpoint over entry sets
	for iter := 0; iter < 4; iter++ {
		for _, f := range lc.fns {
			lc.entry[f] = lc.entryOf(f)
			lc.flow[f] = core.ComputeLocks(c.G(f), lc.entry[f])
		}
	}
	return lc
}

func (lc *lockCtx) bindFieldFunc(info *types.Info, fv *types.Var, rhs ast.Expr) {
	var o types.Object
	switch x := ast.Unparen(rhs).(type) {
	case *ast.SelectorExpr:
		o = info.Uses[x.Sel]
	case *ast.Ident:
		o = info.Uses[x]
	}
	if fo, ok := o.(*types.Func); ok {
		if t := lc.byObj[fo.Origin()]; t != nil {
			lc.field[fv] = append(lc.field[fv], t)
		}
	}
}

// targets resolves the in-package functions a call may invoke.
func (lc *lockCtx) targets(info *types.Info, call *ast.CallExpr) []*core.Func {
	o := core.Callee(info, call)
	switch x := o.(type) {
	case *types.Func:
		if t := lc.byObj[x]; t != nil {
			return []*core.Func{t}
		}
	case *types.Var:
		if x.IsField() {
			return lc.field[x]
		}
	}
	return nil
}

func (lc *lockCtx) entryOf(f *core.Func) core.LockSet {
	info := lc.c.P.Pkgs[lc.rel].TypesInfo
	if f.Lit != nil {
		p := f.Parent
		pf := lc.flow[p]
		if pf == nil {
			return core.LockSet{}
		}
		u := core.UseOfLit(info, p.Body, f.Lit)
		switch u.Kind {
		case "go":
			gs := u.Stmt.(*ast.GoStmt)
			out := core.LockSet{}
			for _, l := range pf.Handoff[gs] {
				out[l.Key()] = l
			}
			return out
		case "defer":
			// runs at function exit: with the locks that are held on every exit... conservatively
			// the locks held at the defer statement that are released only by other defers: approximate
			// with the set held at the statement minus nothing (deferred unlocks run after later defers)
			return pf.HeldAt(u.Stmt).Clone()
		case "call":
			return pf.HeldAt(u.Call).Clone()
		}
		return core.LockSet{}
	}
	if lc.esc[f] {
		return core.LockSet{}
	}
	sites := lc.sites[f]
	if len(sites) == 0 {
		return core.LockSet{}
	}
	var acc core.LockSet
	for _, s := range sites {
		cf := lc.flow[s.caller]
		if cf == nil {
			// caller not analysed yet: skip in this iteration
			continue
		}
		// go f(...) / defer f(...) start with nothing / unknown
		held := cf.HeldAt(s.call)
		if isGoOrDeferCall(s.caller, s.call) {
			held = core.LockSet{}
		}
		t := core.Translate(info, held, s.call, f)
		if acc == nil {
			acc = t
		} else {
			acc = meetByClassAndPath(acc, t)
		}
	}
	if acc == nil {
		return core.LockSet{}
	}
	return acc
}

func isGoOrDeferCall(f *core.Func, call *ast.CallExpr) bool {
	found := false
	core.InspectShallow(f.Body, func(n ast.Node) bool {
		switch s := n.(type) {
		case *ast.GoStmt:
			if s.Call == call {
				found = true
			}
		case *ast.DeferStmt:
			if s.Call == call {
				found = true
			}
		}
		return !found
	})
	return found
}

// meet: a callee-frame path lock survives if both have it; class-only locks survive by class.
func meetByClassAndPath(a, b core.LockSet) core.LockSet {
	out := core.LockSet{}
	for k, l := range a {
		if _, ok := b[k]; ok {
			out[k] = l
			continue
		}
		if len(k) > 6 && k[:6] == "class:" && b.HasClass(l.Class) {
			out[k] = l
		}
	}
	return out
}

// funcOf returns the analysed function (declaration or literal) whose body directly
// contains n.
func (lc *lockCtx) funcOf(n ast.Node) *core.Func {
	var best *core.Func
	for _, f := range lc.fns {
		if within(f.Body, n) && (best == nil || within(best.Body, f.Body)) {
			best = f
		}
	}
	return best
}

// heldAt: locks held when n executes (n anywhere in the package).
func (lc *lockCtx) heldAt(n ast.Node) core.LockSet {
	f := lc.funcOf(n)
	if f == nil || lc.flow[f] == nil {
		return core.LockSet{}
	}
	return lc.flow[f].HeldAt(n)
}

// fn finds the analysed instance of a declared function by name.
func (lc *lockCtx) fn(name string) *core.Func {
	for _, f := range lc.fns {
		if f.Lit == nil && f.Name == name {
			return f
		}
	}
	return nil
}

package props

import (
	"go/ast"
	"go/token"
	"go/types"
	"sort"

	"verifcheck/core"
)

func init() {
	register(&Prop{ID: "C01", Pkgs: []string{"server"}, Run: runC01})
}

func runC01(c *Ctx) {
	m := newSchedModel(c, "C01-R1")
	info := m.info

	// ------------------------------------------------------------------ R1
	c.Rule("C01-R1", "who may shut a runner down: calls resolved to llm.LlamaServer.Close occur only in runnerRef.unload and Scheduler.unloadAllRunners; unload is called only from the expiry branch of processCompleted, unloadAllRunners only from the shutdown goroutine of Serve")
	nClose := 0
	for _, fn := range m.lc.fns {
		for _, call := range core.Calls(fn.Body, false) {
			if core.CalleeName(info, call) != "llm.LlamaServer.Close" {
				continue
			}
			nClose++
			ok := fn.Name == "runnerRef.unload" || fn.Name == "Scheduler.unloadAllRunners"
			c.Check("C01-R1", fn.Key()+" call:LlamaServer.Close", c.Pos(call), ok, "a runner may be closed only by runnerRef.unload (guarded by R2) or at shutdown")
		}
	}
	c.Expect("C01-R1", "LlamaServer.Close call sites", nClose, 2)
	for callee, allowed := range map[string]string{"runnerRef.unload": "Scheduler.processCompleted", "Scheduler.unloadAllRunners": "Serve"} {
		f := m.lc.fn(callee)
		if f == nil {
			c.Undecided("C01-R1", "anchor:func "+callee, "-", "anchor lost")
			continue
		}
		c.Check("C01-R1", f.Key()+" not used as a value", c.Pos(f.Decl), !m.lc.esc[f], "the function escapes as a value; its callers cannot be enumerated")
		for _, s := range m.lc.sites[f] {
			root := s.caller
			for root.Parent != nil {
				root = root.Parent
			}
			c.Check("C01-R1", s.caller.Key()+" call:"+callee, c.Pos(s.call), root.Name == allowed, callee+" may only be called from "+allowed)
		}
		c.Expect("C01-R1", "callers of "+callee, len(m.lc.sites[f]), 1)
	}

	// ------------------------------------------------------------------ R2
	c.Rule("C01-R2", "every call of runnerRef.unload on X is inside a critical section of X.refMu, on the is-zero edge of a test of X.refCount made in that same critical section (no release in between), with Scheduler.loadedMu held, and the removal from the loaded map follows before loadedMu is released")
	if f := m.lc.fn("runnerRef.unload"); f != nil {
		for _, s := range m.lc.sites[f] {
			g := c.G(s.caller)
			loc := g.Locate(s.call)
			recv := core.PathOf(info, s.call.Fun.(*ast.SelectorExpr).X)
			held := m.lc.flow[s.caller].Before[loc]
			key := s.caller.Key() + " call:unload"
			want := core.Path{Root: recv.Root, Fields: append(recv.Fields, m.fRefMu)}
			c.Check("C01-R2", key+" under X.refMu", c.Pos(s.call), recv.Valid() && held.HasPath(want), "unload must run with the runner's refMu held; held: "+joinNames(held))
			zero, why := false, "receiver is not a plain variable"
			if recv.Valid() {
				zero, why = m.refCountZeroFact(g, s.caller, loc, recv)
			}
			c.Check("C01-R2", key+" behind refCount==0 in the same critical section", c.Pos(s.call), zero, why)
			c.Check("C01-R2", key+" under loadedMu", c.Pos(s.call), held.HasClass(m.fLoadedMu), "unload must run with loadedMu held so that no look-up can observe a closed runner in the map")
			// removal follows while loadedMu is still held
			okDel := false
			g.Walk(loc, func(n ast.Node, l core.Loc) bool {
				if !m.lc.flow[s.caller].Before[l].HasClass(m.fLoadedMu) {
					return true
				}
				for _, d := range core.CallsTo(info, n, false, "builtin.delete") {
					if core.FieldVar(info, d.Args[0]) == m.fLoaded {
						okDel = true
					}
				}
				return false
			})
			c.Check("C01-R2", key+" followed by removal from loaded under loadedMu", c.Pos(s.call), okDel, "the unloaded runner must leave the map before loadedMu is released")
		}
	}

	// ------------------------------------------------------------------ R3
	c.Rule("C01-R3", "every store to runnerRef.refCount outside a composite literal holds refMu of the same runner")
	nSt := 0
	for _, st := range m.fieldStores(m.fRefCount) {
		if st.Lit {
			v, isC := core.ConstInt(info, st.Node.(*ast.KeyValueExpr).Value)
			c.Check("C01-R3", st.Fn.Key()+" lit:refCount", c.Pos(st.Node), isC && v == 1, "a fresh runner starts with exactly the loader's reference")
			continue
		}
		nSt++
		c.Check("C01-R3", st.Fn.Key()+" store:runnerRef.refCount "+st.Tok.String(), c.Pos(st.Node), m.ownerLockHeld(st.LHS, m.fRefMu, st.Node),
			"refCount changed without the runner's refMu; held: "+joinNames(m.lc.heldAt(st.Node)))
		// only ++ and -- are allowed
		c.Check("C01-R3", st.Fn.Key()+" store:runnerRef.refCount is inc/dec", c.Pos(st.Node), st.Tok == token.INC || st.Tok == token.DEC, "refCount may only be incremented or decremented by one")
	}
	c.Expect("C01-R3", "refCount stores", nSt, 3)

	// ------------------------------------------------------------------ R4
	c.Rule("C01-R4", "every hand-out (send on LlmRequest.successCh) of runner X happens under X.refMu, and in that critical section X.refCount was incremented — or X is this function's fresh literal with refCount 1 and no decrement of X can reach the send")
	sends := m.opsOn(m.fSuccessCh, true)
	c.Expect("C01-R4", "sends on successCh", len(sends), 2)
	for _, s := range sends {
		ss := s.Node.(*ast.SendStmt)
		x := core.PathOf(info, ss.Value)
		key := s.Fn.Key() + " send:LlmRequest.successCh"
		if !x.Valid() {
			c.Undecided("C01-R4", key, c.Pos(ss), "sent value is not a plain variable")
			continue
		}
		held := m.lc.heldAt(ss)
		want := core.Path{Root: x.Root, Fields: append(x.Fields, m.fRefMu)}
		c.Check("C01-R4", key+" under X.refMu", c.Pos(ss), held.HasPath(want), "held: "+joinNames(held))
		g := c.G(s.Fn)
		loc := g.Locate(ss)
		incOK := false
		for _, st := range m.fieldStores(m.fRefCount) {
			if st.Lit || st.Tok != token.INC || st.Fn != s.Fn {
				continue
			}
			if p := core.PathOf(info, st.LHS); p.Valid() && p.Prefix().Key() == x.Key() {
				sl := g.Locate(st.Node)
				if g.Dominates(sl, loc) && m.lc.flow[s.Fn].Before[sl].HasPath(want) {
					incOK = true
				}
			}
		}
		freshOK := false
		if !incOK {
			// fresh literal in an enclosing function, with refCount: 1, and no decrement reaching the send
			for f := s.Fn; f != nil; f = f.Parent {
				fg := c.G(f)
				for _, as := range fg.AssignsTo(x.Root) {
					ast.Inspect(as.Node, func(n ast.Node) bool {
						cl, ok := n.(*ast.CompositeLit)
						if !ok || core.ObjNameOfType(info.Types[cl].Type) != "server.runnerRef" {
							return true
						}
						for _, e := range cl.Elts {
							if kv, ok := e.(*ast.KeyValueExpr); ok {
								if id, ok := kv.Key.(*ast.Ident); ok && info.Uses[id] == m.fRefCount {
									if v, isC := core.ConstInt(info, kv.Value); isC && v >= 1 {
										freshOK = true
									}
								}
							}
						}
						return true
					})
				}
			}
			if freshOK {
				for _, st := range m.fieldStores(m.fRefCount) {
					if st.Lit || st.Tok != token.DEC || st.Fn != s.Fn {
						continue
					}
					if g.Reaches(g.Locate(st.Node), loc) {
						freshOK = false
					}
				}
			}
		}
		c.Check("C01-R4", key+" holds a reference", c.Pos(ss), incOK || freshOK, "the runner handed out must carry a reference taken in the same critical section (refCount++ before the send, or the loader's initial reference)")
	}

	// ------------------------------------------------------------------ R6
	c.Rule("C01-R6", "balanced accounting: the load goroutine ends either with {one hand-out, no decrement} or {one decrement, one error reply, one expiry post, no hand-out}; each hand-out path starts exactly one goroutine that posts the request's finish event after its context ends; the finish branch decrements exactly once for a runner it found")
	ruleLoadGoroutineBalanced(c, m, "C01-R6")
	ruleUseLoadedBalanced(c, m, "C01-R6")
	if f := m.lc.fn("Scheduler.processCompleted"); f != nil {
		g := c.G(f)
		// finish branch: the select case body receiving from finishedReqCh
		for _, op := range m.opsOn(m.fFinished, false) {
			if op.Fn != f || op.InSelect == nil {
				continue
			}
			var clause *ast.CommClause
			for _, cl := range op.InSelect.Body.List {
				if cc := cl.(*ast.CommClause); cc.Comm != nil && within(cc.Comm, op.Node) {
					clause = cc
				}
			}
			if clause == nil || len(clause.Body) == 0 {
				continue
			}
			start := g.Locate(clause.Comm)
			before, _ := g.CountPathsIn(start, func(n ast.Node) int {
				if id, ok := n.(*ast.IncDecStmt); ok && id.Tok == token.DEC && core.FieldVar(info, id.X) == m.fRefCount {
					return 1
				}
				return 0
			}, func(n ast.Node, l core.Loc) bool { return !within(clause, n) }, core.InStmt(clause))
			// at the end of the clause (first node outside), and at continue statements inside it
			for l, mask := range before {
				n := g.Nodes(l.B)
				if l.I >= len(n) {
					continue
				}
				node := n[l.I]
				if br, ok := node.(*ast.BranchStmt); ok && within(clause, br) {
					// `continue` on the runner == nil path: zero decrements
					c.Check("C01-R6", f.Key()+" finish branch: early continue without decrement", c.Pos(br), mask == 1, "mask="+itoa(int(mask)))
				}
			}
			// unlock at the end of the branch: exactly one decrement before it
			for _, call := range core.CallsTo(info, clause, false, "sync.Mutex.Unlock") {
				if core.FieldVar(info, call.Fun.(*ast.SelectorExpr).X) == m.fRefMu {
					l := g.Locate(call)
					c.Check("C01-R6", f.Key()+" finish branch: exactly one decrement per finished request", c.Pos(call), before[l] == 2, "possible decrement counts before the release (bit1 = exactly one): "+itoa(int(before[l])))
				}
			}
		}
	}
}

func joinNames(s core.LockSet) string {
	n := s.Names()
	if len(n) == 0 {
		return "(none)"
	}
	out := ""
	for i, x := range n {
		if i > 0 {
			out += ", "
		}
		out += x
	}
	return out
}

// ruleUseLoadedBalanced: in useLoadedRunner hand-outs, reference increments and finish posters agree on every path.
func ruleUseLoadedBalanced(c *Ctx, m *schedModel, rule string) {
	info := m.info
	if f := m.lc.fn("LlmRequest.useLoadedRunner"); f != nil {
		g := c.G(f)
		_, incs := g.CountPaths(g.Entry(), func(n ast.Node) int {
			if id, ok := n.(*ast.IncDecStmt); ok && id.Tok == token.INC && core.FieldVar(info, id.X) == m.fRefCount {
				return 1
			}
			return 0
		}, nil)
		_, fins := g.CountPaths(g.Entry(), func(n ast.Node) int {
			gs, ok := n.(*ast.GoStmt)
			if !ok {
				return 0
			}
			l, ok := ast.Unparen(gs.Call.Fun).(*ast.FuncLit)
			if !ok {
				// a named closure: notify := func() {…}; go notify()
				if id, isId := ast.Unparen(gs.Call.Fun).(*ast.Ident); isId {
					if v, isV := info.Uses[id].(*types.Var); isV {
						if rhs, _, cnt := singleDef(info, f.Body, v); cnt == 1 && rhs != nil {
							l, ok = ast.Unparen(rhs).(*ast.FuncLit)
						}
					}
				}
			}
			if !ok {
				return 0
			}
			k := 0
			ast.Inspect(l.Body, func(x ast.Node) bool {
				if ss, ok := x.(*ast.SendStmt); ok && m.chanFieldOf(ss.Chan, m.lc.byLit[l]) == m.fFinished {
					k++
				}
				return true
			})
			if k == 1 && len(core.CallsTo(info, l.Body, false, "context.Context.Done")) == 1 {
				return 1
			}
			return 0
		}, nil)
		_, hands := g.CountPaths(g.Entry(), func(n ast.Node) int {
			if ss, ok := n.(*ast.SendStmt); ok && m.chanFieldOf(ss.Chan, f) == m.fSuccessCh {
				return 1
			}
			return 0
		}, nil)
		// one obligation over all exits, visited in block order (the evidence must not depend on map order)
		locs := make([]core.Loc, 0, len(hands))
		for loc := range hands {
			locs = append(locs, loc)
		}
		sort.Slice(locs, func(i, j int) bool {
			if locs[i].B.Index != locs[j].B.Index {
				return locs[i].B.Index < locs[j].B.Index
			}
			return locs[i].I < locs[j].I
		})
		ok, masks := true, ""
		for _, loc := range locs {
			h := hands[loc]
			ok = ok && h == incs[loc] && h == fins[loc] && (h == 2 || h == 1)
			masks += " [hand-out=" + itoa(int(h)) + " inc=" + itoa(int(incs[loc])) + " finish-poster=" + itoa(int(fins[loc])) + "]"
		}
		if len(locs) > 0 {
			c.Check(rule, f.Key()+" exit balanced", "exit", ok,
				"on every path: hand-outs == increments == finish-poster goroutines (each exactly 0 or exactly 1); masks per exit:"+masks)
		}
	}
}

package props

import (
	"go/ast"
	"go/token"
	"go/types"
	"sort"
	"strconv"
	"strings"

	"verifcheck/core"
)

func init() {
	register(&Prop{ID: "C10", Pkgs: []string{ggmlPkg, "server"}, Run: runC10})
}

// writer-side functions of fs/ggml operate on values built by the program, not on file bytes.
var ggufWriterSide = map[string]bool{
	"WriteGGUF": true, "ggufWriteKV": true, "ggufWriteTensorInfo": true, "ggufWriteTensor": true,
	"writeGGUF": true, "writeGGUFString": true, "writeGGUFArray": true,
}

// taintCtx is the per-function taint state (E4, AST level, flow-insensitive inside a
// function, with dominating branch facts as sanitisers).
type taintCtx struct {
	aliasDepth int
	c       *Ctx
	f       *core.Func
	g       *core.Graph
	info    *types.Info
	tainted map[types.Object]string // variable -> why
	params  map[types.Object]bool   // tainted parameters (from call sites)
	bound   map[types.Object]string // variable known to be < some expression by construction (range index → bound expr)
	// anyType: propagate taint to variables of every type (structs decoded from the file), not
	// only integers and arrays; extraSource: further source expressions (fields filled from a header)
	anyType     bool
	extraSource func(info *types.Info, e ast.Expr) (string, bool)
}

func isIntType(t types.Type) bool {
	if t == nil {
		return false
	}
	b, ok := t.Underlying().(*types.Basic)
	return ok && b.Info()&types.IsInteger != 0
}

func isSigned(t types.Type) bool {
	b, ok := t.Underlying().(*types.Basic)
	return ok && b.Info()&types.IsInteger != 0 && b.Info()&types.IsUnsigned == 0
}

// sourceExpr: is e itself a taint source (value read from the file)?
func (tc *taintCtx) sourceExpr(e ast.Expr) (string, bool) {
	info := tc.info
	if tc.extraSource != nil {
		if w, ok := tc.extraSource(info, e); ok {
			return w, true
		}
	}
	switch x := ast.Unparen(e).(type) {
	case *ast.CallExpr:
		name := core.CalleeName(info, x)
		switch {
		case name == ggmlPkg+".readGGUF":
			if t := info.Types[x].Type; t != nil {
				if tup, ok := t.(*types.Tuple); ok && tup.Len() > 0 && isIntType(tup.At(0).Type()) {
					return "readGGUF", true
				}
			}
		case strings.HasPrefix(name, "encoding/binary.ByteOrder.Uint"):
			return "ByteOrder." + strings.TrimPrefix(name, "encoding/binary.ByteOrder."), true
		case name == ggmlPkg+".gguf.numKV" || name == ggmlPkg+".gguf.numTensor":
			return "header count", true
		case name == ggmlPkg+".keyValue":
			if tc.decodedKV(x.Args[0]) {
				return "decoded metadata", true
			}
		case strings.HasPrefix(name, ggmlPkg+".KV."):
			if se, ok := ast.Unparen(x.Fun).(*ast.SelectorExpr); ok && tc.decodedKV(se.X) {
				if t := info.Types[x].Type; t != nil && (isIntType(t) || strings.Contains(t.String(), "[]")) {
					return "decoded metadata (" + strings.TrimPrefix(name, ggmlPkg+".") + ")", true
				}
			}
		case name == ggmlPkg+".Tensor.Size" || name == ggmlPkg+".Tensor.parameters" || name == ggmlPkg+".Layer.Size":
			// blockSize/typeSize return constants (C10-R5); Size and parameters are products of the decoded shape
			if t := info.Types[x].Type; t != nil && isIntType(t) && !ggufWriterSide[tc.f.Name] {
				return "decoded tensor (" + strings.TrimPrefix(name, ggmlPkg+".") + ")", true
			}
		}
	case *ast.SelectorExpr:
		if f := core.FieldVar(info, x); f != nil {
			switch f.Name() {
			case "NumTensor", "NumKV":
				return "header count", true
			case "size":
				if core.ObjNameOfType(info.Types[x.X].Type) == ggmlPkg+".array" {
					return "array.size", true
				}
			case "Shape", "Kind", "Offset":
				if core.ObjNameOfType(info.Types[x.X].Type) == ggmlPkg+".Tensor" && !ggufWriterSide[tc.f.Name] {
					return "decoded tensor field " + f.Name(), true
				}
			}
		}
	case *ast.IndexExpr:
		// kv["key"] of a decoded KV, element of a decoded Shape
		if t := info.Types[x.X].Type; t != nil && core.ObjNameOfType(t) == ggmlPkg+".KV" && tc.decodedKV(x.X) {
			return "decoded metadata element", true
		}
	}
	return "", false
}

// decodedKV: the KV expression may hold file-derived values: anything except a KV parameter
// of a writer-side function.
func (tc *taintCtx) decodedKV(e ast.Expr) bool {
	if ggufWriterSide[tc.f.Name] {
		return false
	}
	return true
}

// taintOf: is e tainted? returns the variables it depends on and a reason.
func (tc *taintCtx) taintOf(e ast.Expr) (bool, string) {
	found, why := false, ""
	ast.Inspect(e, func(n ast.Node) bool {
		if found {
			return false
		}
		switch x := n.(type) {
		case *ast.FuncLit:
			return false
		case *ast.CallExpr:
			// len()/cap() of anything are not file-controlled magnitudes; ggufPadding returns a value
			// in [0, align) (audited: its divisor sink is checked inside it with the call-site facts)
			if nm := core.CalleeName(tc.info, x); nm == "builtin.len" || nm == "builtin.cap" || nm == ggmlPkg+".ggufPadding" {
				return false
			}
		case *ast.Ident:
			if o := tc.info.Uses[x]; o != nil {
				if w, ok := tc.tainted[o]; ok {
					found, why = true, x.Name+" ← "+w
				}
			}
		}
		if ex, ok := n.(ast.Expr); ok {
			if w, isSrc := tc.sourceExpr(ex); isSrc {
				found, why = true, w
				return false
			}
		}
		return true
	})
	return found, why
}

func newTaintCtx(c *Ctx, f *core.Func, paramTaint map[types.Object]string) *taintCtx {
	return newTaintCtxOpts(c, f, paramTaint, false, nil)
}

func newTaintCtxOpts(c *Ctx, f *core.Func, paramTaint map[types.Object]string, anyType bool, extra func(info *types.Info, e ast.Expr) (string, bool)) *taintCtx {
	tc := &taintCtx{c: c, f: f, g: c.G(f), info: f.Info(), tainted: map[types.Object]string{}, bound: map[types.Object]string{}, anyType: anyType, extraSource: extra}
	for o, w := range paramTaint {
		tc.tainted[o] = w
	}
	// propagate to a fixpoint (flow-insensitive)
	for iter := 0; iter < 6; iter++ {
		changed := false
		mark := func(id *ast.Ident, why string) {
			o := tc.info.Defs[id]
			if o == nil {
				o = tc.info.Uses[id]
			}
			if o == nil || id.Name == "_" {
				return
			}
			if _, ok := tc.tainted[o]; !ok {
				tc.tainted[o] = why
				changed = true
			}
		}
		ast.Inspect(f.Body, func(n ast.Node) bool {
			switch x := n.(type) {
			case *ast.AssignStmt:
				// a local function value whose result is file-derived: its calls are file-derived
				for i, r := range x.Rhs {
					if lit, isLit := ast.Unparen(r).(*ast.FuncLit); isLit && i < len(x.Lhs) && len(x.Lhs) == len(x.Rhs) {
						if id, ok := x.Lhs[i].(*ast.Ident); ok {
							core.InspectShallow(lit.Body, func(m ast.Node) bool {
								if ret, isRet := m.(*ast.ReturnStmt); isRet {
									for _, res := range ret.Results {
										if t, why := tc.taintOf(res); t {
											mark(id, why)
										}
									}
								}
								return true
							})
						}
					}
				}
				if len(x.Rhs) == 1 && len(x.Lhs) >= 1 {
					if t, why := tc.taintOf(x.Rhs[0]); t {
						// multi-value call: only the non-error, integer-ish results
						for i, l := range x.Lhs {
							id, ok := l.(*ast.Ident)
							if !ok {
								continue
							}
							var lt types.Type
							if o := tc.info.Defs[id]; o != nil {
								lt = o.Type()
							} else if o := tc.info.Uses[id]; o != nil {
								lt = o.Type()
							}
							if lt != nil && (tc.anyType || isIntType(lt) || strings.Contains(lt.String(), "array") || strings.Contains(lt.String(), "[]uint")) && !(len(x.Lhs) > 1 && i == len(x.Lhs)-1 && lt.String() == "error") {
								mark(id, why)
							}
						}
					}
				} else {
					for i, r := range x.Rhs {
						if t, why := tc.taintOf(r); t && i < len(x.Lhs) {
							if id, ok := x.Lhs[i].(*ast.Ident); ok {
								mark(id, why)
							}
						}
					}
				}
			case *ast.ValueSpec:
				for i, v := range x.Values {
					if t, why := tc.taintOf(v); t && i < len(x.Names) {
						mark(x.Names[i], why)
					}
				}
			case *ast.RangeStmt:
				// for i := range n (integer range over a tainted count): i < n by construction
				if t, _ := tc.taintOf(x.X); t && isIntType(tc.info.Types[x.X].Type) {
					if id, ok := x.Key.(*ast.Ident); ok {
						if o := tc.info.Defs[id]; o != nil {
							tc.bound[o] = core.ExprString(x.X)
						}
					}
				}
				// for _, v := range <decoded slice> : elements are tainted
				if t, why := tc.taintOf(x.X); t && !isIntType(tc.info.Types[x.X].Type) {
					if id, ok := x.Value.(*ast.Ident); ok && isIntType(tc.info.Defs[id].Type()) {
						mark(id, why)
					}
				}
			}
			return true
		})
		if !changed {
			break
		}
	}
	return tc
}

// factsOn: which bounds are known for expression e at loc (by dominating branch facts on
// the same expression text or on its single variable).
type bounds struct{ upper, lower, nonzero bool }

func stripConv(info *types.Info, e ast.Expr) ast.Expr {
	for {
		e = ast.Unparen(e)
		call, ok := e.(*ast.CallExpr)
		if !ok || len(call.Args) != 1 {
			return e
		}
		if tv, ok := info.Types[call.Fun]; ok && tv.IsType() {
			e = call.Args[0]
			continue
		}
		return e
	}
}

func (tc *taintCtx) boundsAt(e ast.Expr, loc core.Loc) bounds {
	info := tc.info
	var b bounds
	base := stripConv(info, e)
	// X / c with a positive constant c keeps the bounds of X
	for {
		q, isQ := ast.Unparen(base).(*ast.BinaryExpr)
		if !isQ || q.Op != token.QUO {
			break
		}
		if v, isC := core.ConstInt(info, q.Y); !isC || v <= 0 {
			break
		}
		base = stripConv(info, q.X)
	}
	bs := core.ExprString(base)
	// unsigned values have a lower bound; a conversion of an unsigned value to a signed type does not
	if t := info.Types[e].Type; t != nil && isIntType(t) && !isSigned(t) {
		b.lower = true
	}
	if bt := info.Types[base].Type; bt != nil && isIntType(bt) && !isSigned(bt) {
		if et := info.Types[e].Type; et != nil && isIntType(et) {
			sz := types.SizesFor("gc", "amd64")
			if sz.Sizeof(bt.Underlying()) < sz.Sizeof(et.Underlying()) {
				b.lower = true // e.g. int(uint32) on the analysed 64-bit configuration
			}
		}
	}
	// min(x, C) bounds above
	if call, ok := base.(*ast.CallExpr); ok && core.CalleeName(info, call) == "builtin.min" {
		for _, a := range call.Args {
			if t, _ := tc.taintOf(a); !t {
				b.upper = true
			}
		}
		// lower bound from the tainted operand's own facts
		for _, a := range call.Args {
			if t, _ := tc.taintOf(a); t {
				ab := tc.boundsAt(a, loc)
				b.lower = b.lower || ab.lower
				b.nonzero = b.nonzero || ab.nonzero
			}
		}
	}
	// range index bounded by construction is handled by the caller (needs the indexed slice)
	same := func(x ast.Expr) bool { return core.ExprString(stripConv(info, x)) == bs }
	for _, a := range tc.g.AtomsAt(loc) {
		switch x := ast.Unparen(a.Expr).(type) {
		case *ast.BinaryExpr:
			var op token.Token
			var other ast.Expr
			switch {
			case same(x.X):
				op, other = x.Op, x.Y
			case same(x.Y):
				op, other = flip(x.Op), x.X
			default:
				continue
			}
			if t, _ := tc.taintOf(other); t && !isConstExpr(info, other) {
				// compared with another file-derived value: no bound — except U - T with U not
				// file-derived and T known non-negative here (U - T <= U)
				sub, isSub := ast.Unparen(other).(*ast.BinaryExpr)
				okSub := false
				if isSub && sub.Op == token.SUB && core.ExprString(stripConv(info, sub.Y)) != bs {
					if tu, _ := tc.taintOf(sub.X); !tu && tc.boundsAt(sub.Y, loc).lower {
						okSub = true
					}
				}
				if !okSub {
					continue
				}
			}
			cv, isC := core.ConstInt(info, other)
			switch op {
			case token.LSS, token.LEQ:
				if a.Val {
					b.upper = true
				} else {
					b.lower = b.lower || (isC && cv >= 0)
					if isC && cv >= 0 && op == token.LEQ {
						b.nonzero = true // !(x <= c), c >= 0  ⇒ x > 0
					}
					if isC && cv > 0 && op == token.LSS {
						b.nonzero = true
					}
				}
			case token.GTR, token.GEQ:
				if a.Val {
					b.lower = b.lower || (isC && cv >= 0)
					if isC && (cv > 0 || (cv == 0 && op == token.GTR)) {
						b.nonzero = true
					}
				} else {
					b.upper = true
				}
			case token.EQL:
				if a.Val && isC {
					b.upper, b.lower = true, cv >= 0
					b.nonzero = cv != 0
				}
				if !a.Val && isC && cv == 0 {
					b.nonzero = true
				}
			case token.NEQ:
				if a.Val && isC && cv == 0 {
					b.nonzero = true
				}
				if !a.Val && isC {
					b.upper, b.lower = true, cv >= 0
					b.nonzero = cv != 0
				}
			}
		case *ast.CallExpr:
			// canCollectArray(x) is NOT an upper bound: with maxArraySize < 0 (verbose show) it
			// accepts every count — the first version of this rule trusted it and missed the
			// unbounded make in the array readers (repaired in /repo, see DESIGN §10)
			_ = x
		}
	}
	// a local that is a plain copy (or conversion) of another variable inherits the facts known of that
	// variable here — `align := int64(alignment)` after `if alignment == 0 { return … }` — provided both
	// are assigned exactly once, so the facts still describe the copied value
	if id, isId := ast.Unparen(base).(*ast.Ident); isId && tc.aliasDepth < 2 {
		if v, isV := info.Uses[id].(*types.Var); isV && !v.IsField() {
			if rhs, _, cnt := singleDef(info, tc.f.Body, v); cnt == 1 && rhs != nil {
				src := stripConv(info, rhs)
				if sid, isS := ast.Unparen(src).(*ast.Ident); isS {
					if sv, isSV := info.Uses[sid].(*types.Var); isSV && !sv.IsField() && sv != v {
						if _, _, scnt := singleDef(info, tc.f.Body, sv); scnt <= 1 {
							tc.aliasDepth++
							rb := tc.boundsAt(rhs, loc)
							tc.aliasDepth--
							b.upper = b.upper || rb.upper
							b.lower = b.lower || rb.lower
							b.nonzero = b.nonzero || rb.nonzero
						}
					}
				}
			}
		}
	}
	return b
}

func isConstExpr(info *types.Info, e ast.Expr) bool {
	_, ok := core.ConstInt(info, e)
	return ok
}

func flip(op token.Token) token.Token {
	switch op {
	case token.LSS:
		return token.GTR
	case token.LEQ:
		return token.GEQ
	case token.GTR:
		return token.LSS
	case token.GEQ:
		return token.LEQ
	}
	return op
}

// madeWithLen: slice expression s was created by make(T, L) with L textually equal to bound.
func (tc *taintCtx) madeWithLen(s ast.Expr, boundExpr string) bool {
	info := tc.info
	target := core.ExprString(s)
	ok := false
	ast.Inspect(tc.f.Body, func(n ast.Node) bool {
		check := func(lhs ast.Expr, rhs ast.Expr) {
			if core.ExprString(lhs) != target {
				return
			}
			if call, isC := ast.Unparen(rhs).(*ast.CallExpr); isC && core.CalleeName(info, call) == "builtin.make" && len(call.Args) == 2 {
				if core.ExprString(stripConv(info, call.Args[1])) == core.ExprString(stripConvStr(boundExpr, info, tc)) || core.ExprString(call.Args[1]) == boundExpr || core.ExprString(stripConv(info, call.Args[1])) == boundExpr {
					ok = true
				}
			}
		}
		switch x := n.(type) {
		case *ast.AssignStmt:
			for i, l := range x.Lhs {
				if i < len(x.Rhs) {
					check(l, x.Rhs[i])
				}
			}
			// s, … := recv.F(…) where F allocates its i-th (named) result exactly once with
			// make(T, LEN) and LEN, read with F's receiver replaced by recv, is the bound
			if len(x.Rhs) == 1 && len(x.Lhs) >= 1 {
				if call, isC := ast.Unparen(x.Rhs[0]).(*ast.CallExpr); isC {
					for i, l := range x.Lhs {
						if core.ExprString(l) == target && tc.calleeMakesResult(call, i, boundExpr) {
							ok = true
						}
					}
				}
			}
		}
		return true
	})
	return ok
}

// calleeMakesResult: the callee of call is a method of package fs/ggml whose idx-th result is a
// named result assigned exactly once in its body, by make(T, LEN); LEN with the method's receiver
// name replaced by the call's receiver expression equals boundExpr (conversions stripped).
func (tc *taintCtx) calleeMakesResult(call *ast.CallExpr, idx int, boundExpr string) bool {
	fo, _ := core.Callee(tc.info, call).(*types.Func)
	sel, isSel := ast.Unparen(call.Fun).(*ast.SelectorExpr)
	if fo == nil || !isSel {
		return false
	}
	var callee *core.Func
	for _, f := range tc.c.P.FuncsOf(ggmlPkg) {
		if f.Obj != nil && f.Obj.FullName() == fo.FullName() {
			callee = f
		}
	}
	if callee == nil || callee.Decl.Recv == nil || len(callee.Decl.Recv.List) != 1 || len(callee.Decl.Recv.List[0].Names) != 1 || callee.Type.Results == nil {
		return false
	}
	recvName := callee.Decl.Recv.List[0].Names[0].Name
	var res *ast.Ident
	i := 0
	for _, fl := range callee.Type.Results.List {
		for _, nm := range fl.Names {
			if i == idx {
				res = nm
			}
			i++
		}
	}
	if res == nil {
		return false
	}
	cinfo := callee.Info()
	robj := cinfo.Defs[res]
	nAssign, good := 0, false
	ast.Inspect(callee.Body, func(n ast.Node) bool {
		as, isA := n.(*ast.AssignStmt)
		if !isA {
			return true
		}
		for j, l := range as.Lhs {
			id, isId := l.(*ast.Ident)
			if !isId || cinfo.Uses[id] != robj {
				continue
			}
			nAssign++
			if len(as.Lhs) == len(as.Rhs) {
				if mk, isC := ast.Unparen(as.Rhs[j]).(*ast.CallExpr); isC && core.CalleeName(cinfo, mk) == "builtin.make" && len(mk.Args) == 2 {
					ln := core.ExprString(stripConv(cinfo, mk.Args[1]))
					// the receiver's name at the head of the length expression
					if strings.HasPrefix(ln, recvName+".") {
						ln = core.ExprString(sel.X) + strings.TrimPrefix(ln, recvName)
					}
					be := boundExpr
					for strings.HasPrefix(be, "int(") && strings.HasSuffix(be, ")") {
						be = strings.TrimSuffix(strings.TrimPrefix(be, "int("), ")")
					}
					if ln == be {
						good = true
					}
				}
			}
		}
		return true
	})
	// the receiver must not be rebound in the callee, and append would change the length
	grows := false
	ast.Inspect(callee.Body, func(n ast.Node) bool {
		if c2, isC := n.(*ast.CallExpr); isC && core.CalleeName(cinfo, c2) == "builtin.append" && len(c2.Args) > 0 {
			if id, isId := ast.Unparen(c2.Args[0]).(*ast.Ident); isId && cinfo.Uses[id] == robj {
				grows = true
			}
		}
		return true
	})
	// every return hands back that variable (bare return, or the variable itself at idx)
	retOK := true
	core.InspectShallow(callee.Body, func(n ast.Node) bool {
		if r, isR := n.(*ast.ReturnStmt); isR && len(r.Results) > 0 {
			id, isId := ast.Unparen(r.Results[min(idx, len(r.Results)-1)]).(*ast.Ident)
			if len(r.Results) <= idx || !isId || cinfo.Uses[id] != robj {
				retOK = false
			}
		}
		return true
	})
	return nAssign == 1 && good && !grows && retOK
}

func stripConvStr(s string, info *types.Info, tc *taintCtx) ast.Expr { return &ast.Ident{Name: s} }

type sinkReport struct {
	kind, what, why string
	node            ast.Node
	ok              bool
	need            string
}

// sinks enumerates the sink uses of tainted values in the function.
func (tc *taintCtx) sinks() []sinkReport {
	info := tc.info
	var out []sinkReport
	g := tc.g
	add := func(kind string, n ast.Node, e ast.Expr, needUpper, needLower, needNZ bool) {
		t, why := tc.taintOf(e)
		if !t {
			return
		}
		loc := g.Locate(n)
		b := tc.boundsAt(e, loc)
		ok := (!needUpper || b.upper) && (!needLower || b.lower) && (!needNZ || b.nonzero)
		var need []string
		if needUpper && !b.upper {
			need = append(need, "an upper bound")
		}
		if needLower && !b.lower {
			need = append(need, "a non-negativity test")
		}
		if needNZ && !b.nonzero {
			need = append(need, "a non-zero test")
		}
		out = append(out, sinkReport{kind: kind, what: core.ExprString(e), why: why, node: n, ok: ok, need: strings.Join(need, " and ")})
	}
	core.InspectShallow(tc.f.Body, func(n ast.Node) bool {
		switch x := n.(type) {
		case *ast.CallExpr:
			name := core.CalleeName(info, x)
			switch {
			case name == "builtin.make":
				for _, a := range x.Args[1:] {
					add("make", x, a, true, true, false)
				}
			case strings.HasSuffix(name, ".Seek") && len(x.Args) == 2:
				add("seek", x, x.Args[0], false, true, false)
			case name == "bytes.Buffer.Truncate":
				// Truncate(E - c): needs E >= c
				if be, ok := ast.Unparen(x.Args[0]).(*ast.BinaryExpr); ok && be.Op == token.SUB {
					loc := g.Locate(x)
					okG := false
					for _, a := range g.AtomsAt(loc) {
						if cb, isB := ast.Unparen(a.Expr).(*ast.BinaryExpr); isB && core.ExprString(cb.X) == core.ExprString(be.X) {
							if v, isC := core.ConstInt(info, cb.Y); isC && v == 0 && ((cb.Op == token.EQL && !a.Val) || (cb.Op == token.GTR && a.Val) || (cb.Op == token.NEQ && a.Val)) {
								okG = true
							}
						}
					}
					out = append(out, sinkReport{kind: "truncate", what: core.ExprString(x.Args[0]), why: "buffer length after a file-controlled copy", node: x, ok: okG, need: "a test that " + core.ExprString(be.X) + " is not zero"})
				}
			}
		case *ast.SliceExpr:
			for _, bnd := range []ast.Expr{x.Low, x.High, x.Max} {
				if bnd != nil {
					add("slice bound", x, bnd, true, true, false)
				}
			}
		case *ast.IndexExpr:
			// skip map indexing and generic instantiation
			if t := info.Types[x.X].Type; t != nil {
				switch t.Underlying().(type) {
				case *types.Slice, *types.Array, *types.Basic, *types.Pointer:
				default:
					return true
				}
			} else {
				return true
			}
			if tv, ok := info.Types[x.X]; ok && tv.IsType() {
				return true
			}
			// index bounded by construction: i from `range N` into a slice made with length N
			if id, ok := ast.Unparen(x.Index).(*ast.Ident); ok {
				if bexpr, isB := tc.bound[info.Uses[id]]; isB {
					if tc.madeWithLen(x.X, bexpr) {
						return true
					}
					out = append(out, sinkReport{kind: "index", what: core.ExprString(x), why: "index < " + bexpr + " (file-controlled count)", node: x, ok: false,
						need: "the indexed slice to be allocated with that same length (it may be nil or shorter)"})
					return true
				}
			}
			// constant index into a file-derived slice (Shape[1], gpus[0]...) needs a length guard
			if cv, isC := core.ConstInt(info, x.Index); isC {
				if t, why := tc.taintOf(x.X); t {
					loc := g.Locate(x)
					okG := false
					for _, a := range g.AtomsAt(loc) {
						if be, isB := ast.Unparen(a.Expr).(*ast.BinaryExpr); isB {
							if call, isCall := ast.Unparen(be.X).(*ast.CallExpr); isCall && core.CalleeName(info, call) == "builtin.len" && core.ExprString(call.Args[0]) == core.ExprString(x.X) {
								if v, isV := core.ConstInt(info, be.Y); isV && ((be.Op == token.GTR && a.Val && v >= cv) || (be.Op == token.GEQ && a.Val && v > cv) || (be.Op == token.EQL && a.Val && v > cv) || (be.Op == token.NEQ && !a.Val && v > cv)) {
									okG = true
								}
							}
						}
					}
					out = append(out, sinkReport{kind: "index", what: core.ExprString(x), why: why, node: x, ok: okG, need: "a length test of " + core.ExprString(x.X)})
				}
				return true
			}
			add("index", x, x.Index, true, true, false)
		case *ast.BinaryExpr:
			if x.Op == token.QUO || x.Op == token.REM {
				if t := info.Types[x.Y].Type; t != nil && isIntType(t) {
					add("divisor", x, x.Y, false, false, true)
				}
			}
		case *ast.AssignStmt:
			if x.Tok == token.QUO_ASSIGN || x.Tok == token.REM_ASSIGN {
				add("divisor", x, x.Rhs[0], false, false, true)
			}
		}
		return true
	})
	return out
}

func runC10(c *Ctx) {
	info := c.P.Pkgs[ggmlPkg].TypesInfo

	// ------------------------------------------------------------------ R1 taint to sink
	c.Rule("C10-R1", "no file-controlled integer reaches an allocation size, a slice bound, an index, a divisor, a seek offset or a buffer truncation in package fs/ggml (decoder and metadata accessors; the writer side is excluded) without a dominating bound: allocation/slice/index need an upper bound against a value that is not file-controlled and non-negativity for signed values, divisors a non-zero test, seek offsets non-negativity; an index obtained from `range N` is bounded only for a slice allocated with that same N")
	// parameter taint from call sites inside the package (one level, iterated)
	paramTaint := map[*core.Func]map[types.Object]string{}
	fns := c.P.FuncsOf(ggmlPkg)
	byObj := map[types.Object]*core.Func{}
	for _, f := range fns {
		if f.Obj != nil {
			byObj[f.Obj] = f
		}
		paramTaint[f] = map[types.Object]string{}
	}
	paramFacts := map[*core.Func]map[types.Object]*bounds{}
	for iter := 0; iter < 3; iter++ {
		for _, f := range fns {
			if ggufWriterSide[f.Name] {
				continue
			}
			tc := newTaintCtx(c, f, paramTaint[f])
			for _, call := range core.Calls(f.Body, false) {
				fo, ok := core.Callee(info, call).(*types.Func)
				if !ok {
					continue
				}
				callee := byObj[fo]
				if callee == nil || ggufWriterSide[callee.Name] {
					continue
				}
				i := 0
				for _, fl := range callee.Type.Params.List {
					for _, nm := range fl.Names {
						if i < len(call.Args) && isIntType(info.Types[call.Args[i]].Type) {
							if t, why := tc.taintOf(call.Args[i]); t {
								po := info.Defs[nm]
								if _, have := paramTaint[callee][po]; !have {
									paramTaint[callee][po] = why + " (via " + f.Name + ")"
								}
								// facts holding at every tainted call site carry over
								b := tc.boundsAt(call.Args[i], tc.g.Locate(call))
								if paramFacts[callee] == nil {
									paramFacts[callee] = map[types.Object]*bounds{}
								}
								if old, have := paramFacts[callee][po]; have {
									old.upper, old.lower, old.nonzero = old.upper && b.upper, old.lower && b.lower, old.nonzero && b.nonzero
								} else {
									nb := b
									paramFacts[callee][po] = &nb
								}
							}
						}
						i++
					}
				}
			}
		}
	}
	nSinks, nFuncs := 0, 0
	for _, f := range fns {
		if ggufWriterSide[f.Name] {
			continue
		}
		nFuncs++
		tc := newTaintCtx(c, f, paramTaint[f])
		reports := tc.sinks()
		sort.Slice(reports, func(i, j int) bool { return reports[i].node.Pos() < reports[j].node.Pos() })
		seq := map[string]int{}
		for _, r := range reports {
			// parameter facts established at every call site
			if !r.ok {
				if id, ok := stripConv(info, exprOfSink(r)).(*ast.Ident); ok {
					if pf := paramFacts[f][info.Uses[id]]; pf != nil {
						switch r.kind {
						case "divisor":
							r.ok = pf.nonzero
						case "seek":
							r.ok = pf.lower
						}
						if r.ok {
							r.need = ""
						}
					}
				}
			}
			nSinks++
			k := r.kind + ":" + tc.stableExpr(r.what, r.node)
			seq[k]++
			key := f.Key() + " " + k
			if seq[k] > 1 {
				key += "#" + itoa(seq[k])
			}
			c.Check("C10-R1", key, c.Pos(r.node), r.ok, "file-controlled value ("+r.why+") reaches "+r.kind+" `"+r.what+"` without "+r.need)
		}
	}
	c.Expect("C10-R1", "decoder/accessor functions analysed", nFuncs, 55)
	c.Expect("C10-R1", "sink uses of file-controlled values", nSinks, 12)

	// ------------------------------------------------------------------ R2 unchecked assertions
	c.Rule("C10-R2", "type assertions on decoded metadata are checked: every x.(T) in fs/ggml (outside the writer side and type switches) whose operand is a KV element or an element of a decoded array uses the comma-ok form")
	nA := 0
	for _, f := range fns {
		if ggufWriterSide[f.Name] {
			continue
		}
		// comma-ok assertions
		okForm := map[*ast.TypeAssertExpr]bool{}
		ast.Inspect(f.Body, func(n ast.Node) bool {
			switch x := n.(type) {
			case *ast.AssignStmt:
				if len(x.Lhs) == 2 && len(x.Rhs) == 1 {
					if ta, ok := ast.Unparen(x.Rhs[0]).(*ast.TypeAssertExpr); ok {
						okForm[ta] = true
					}
				}
			case *ast.ValueSpec:
				if len(x.Names) == 2 && len(x.Values) == 1 {
					if ta, ok := ast.Unparen(x.Values[0]).(*ast.TypeAssertExpr); ok {
						okForm[ta] = true
					}
				}
			case *ast.TypeSwitchStmt:
				ast.Inspect(x.Assign, func(m ast.Node) bool {
					if ta, ok := m.(*ast.TypeAssertExpr); ok {
						okForm[ta] = true
					}
					return true
				})
			}
			return true
		})
		seq := 0
		ast.Inspect(f.Body, func(n ast.Node) bool {
			ta, ok := n.(*ast.TypeAssertExpr)
			if !ok || ta.Type == nil {
				return true
			}
			// operand: KV index, or element of array.values
			op := ast.Unparen(ta.X)
			isMeta := false
			if ix, isIx := op.(*ast.IndexExpr); isIx {
				if t := info.Types[ix.X].Type; t != nil && (core.ObjNameOfType(t) == ggmlPkg+".KV" || selName(ix.X) == "values") {
					isMeta = true
				}
			}
			if id, isID := op.(*ast.Ident); isID && !isMeta {
				// a variable read from a KV element: val, ok := kv[key]
				g := c.G(f)
				for _, as := range g.AssignsTo(info.Uses[id]) {
					ast.Inspect(as.Node, func(m ast.Node) bool {
						if ix, isIx := m.(*ast.IndexExpr); isIx {
							if t := info.Types[ix.X].Type; t != nil && core.ObjNameOfType(t) == ggmlPkg+".KV" {
								isMeta = true
							}
						}
						return true
					})
				}
			}
			if !isMeta {
				return true
			}
			nA++
			seq++
			c.Check("C10-R2", f.Key()+" assert#"+itoa(seq)+":"+core.ExprString(ta), c.Pos(ta), okForm[ta], "unchecked type assertion on file-controlled metadata: a missing key or a value stored with another type panics (in the scheduler / create goroutine, outside the recovery middleware)")
			return true
		})
	}
	c.Expect("C10-R2", "type assertions on decoded metadata", nA, 2)

	// ------------------------------------------------------------------ R4 / R5 / R6
	c.Rule("C10-R4", "a slice allocated with length 0 (make(T, 0, n)) is only appended to, never stored into by index")
	for _, f := range fns {
		ast.Inspect(f.Body, func(n ast.Node) bool {
			as, ok := n.(*ast.AssignStmt)
			if !ok || len(as.Lhs) != 1 || len(as.Rhs) != 1 {
				return true
			}
			call, isC := ast.Unparen(as.Rhs[0]).(*ast.CallExpr)
			if !isC || core.CalleeName(info, call) != "builtin.make" || len(call.Args) != 3 {
				return true
			}
			if v, isV := core.ConstInt(info, call.Args[1]); !isV || v != 0 {
				return true
			}
			target := core.ExprString(as.Lhs[0])
			bad := ""
			ast.Inspect(f.Body, func(m ast.Node) bool {
				if a2, ok := m.(*ast.AssignStmt); ok {
					for _, l := range a2.Lhs {
						if ix, isIx := ast.Unparen(l).(*ast.IndexExpr); isIx && core.ExprString(ix.X) == target {
							bad = c.Pos(a2)
						}
					}
				}
				return true
			})
			c.Check("C10-R4", f.Key()+" make(T, 0, n) then indexed store into "+target, c.Pos(as), bad == "", "the slice has length 0: the indexed store at "+bad+" panics for the first element (use make(T, n) or append)")
			return true
		})
	}
	c.Rule("C10-R5", "divisor helpers never return zero: Tensor.blockSize (divisor of Tensor.Size, evaluated inside Decode for every tensor) returns only positive constants, whatever the file-controlled kind")
	if f := c.Fn("C10-R5", ggmlPkg, "Tensor.blockSize"); f != nil {
		g := c.G(f)
		n := 0
		for _, ex := range g.Returns() {
			n++
			v, isC := core.ConstInt(info, ex.Return.Results[0])
			c.Check("C10-R5", f.Key()+" return#"+itoa(n)+" positive constant", c.Pos(ex.Return), isC && v > 0, "blockSize is a divisor in Tensor.Size: an unknown kind must not yield 0")
		}
		c.Expect("C10-R5", "returns of blockSize", n, 3)
	}
	c.Rule("C10-R6", "every loop whose trip count is file-controlled consumes input in each iteration through a reader whose error ends the function (so a huge count ends at EOF), and readers only move forward")
	readers := map[string]bool{ggmlPkg + ".readGGUF": true, ggmlPkg + ".readGGUFString": true, ggmlPkg + ".readGGUFV1String": true, ggmlPkg + ".discardGGUFString": true,
		ggmlPkg + ".readGGUFArray": true, ggmlPkg + ".readGGUFV1Array": true, "io.ReadFull": true, "encoding/binary.Read": true, "io.Reader.Read": true, "io.CopyN": true}
	nLoops := 0
	for _, f := range fns {
		if ggufWriterSide[f.Name] {
			continue
		}
		tc := newTaintCtx(c, f, paramTaint[f])
		g := tc.g
		seq := 0
		core.InspectShallow(f.Body, func(n ast.Node) bool {
			var body *ast.BlockStmt
			var cnt ast.Expr
			switch x := n.(type) {
			case *ast.RangeStmt:
				if isIntType(info.Types[x.X].Type) {
					body, cnt = x.Body, x.X
				}
			case *ast.ForStmt:
				if be, ok := x.Cond.(*ast.BinaryExpr); ok && (be.Op == token.LSS || be.Op == token.GTR) {
					body = x.Body
					cnt = be.Y
					if be.Op == token.GTR {
						cnt = be.X
					}
				}
			}
			if body == nil {
				return true
			}
			if t, _ := tc.taintOf(cnt); !t {
				return true
			}
			// only loops on the decode path (they take a reader): functions with an io.Reader/ReadSeeker parameter
			hasReader := false
			for _, fl := range f.Type.Params.List {
				if t := info.Types[fl.Type].Type; t != nil && (strings.HasSuffix(t.String(), "io.Reader") || strings.HasSuffix(t.String(), "io.ReadSeeker")) {
					hasReader = true
				}
			}
			if !hasReader {
				return true
			}
			nLoops++
			seq++
			consumes := loopConsumes(info, body, readers)
			_ = g
			c.Check("C10-R6", f.Key()+" loop#"+itoa(seq)+" over "+core.ExprString(cnt)+" consumes input", c.Pos(n), consumes, "a loop with a file-controlled trip count must read from the input in every iteration and stop on the read error")
			return true
		})
	}
	c.Expect("C10-R6", "file-controlled loops on the decode path", nLoops, 5)

	// ------------------------------------------------------------------ R3 decoding goroutines
	c.Rule("C10-R3", "a goroutine started by a gin handler whose body reaches ggml.Decode must install a deferred recover: the recovery middleware covers only the handler goroutine, so any decoder panic there ends the whole server")
	sinfo := c.P.Pkgs["server"].TypesInfo
	decoders := map[string]bool{}
	// in-package functions that (transitively) call ggml.Decode
	sfns := c.P.FuncsOf("server")
	for iter := 0; iter < 5; iter++ {
		for _, f := range sfns {
			if decoders[f.Name] {
				continue
			}
			for _, call := range core.Calls(f.Body, true) {
				n := core.CalleeName(sinfo, call)
				if n == ggmlPkg+".Decode" || (strings.HasPrefix(n, "server.") && decoders[strings.TrimPrefix(n, "server.")]) {
					decoders[f.Name] = true
				}
			}
		}
	}
	nG := 0
	for _, f := range sfns {
		if f.Decl.Recv == nil || !strings.HasSuffix(f.Name, "Handler") {
			continue
		}
		for _, l := range f.Lits() {
			if u := core.UseOfLit(sinfo, f.Body, l.Lit); u.Kind != "go" {
				continue
			}
			reaches := ""
			for _, call := range core.Calls(l.Body, true) {
				n := core.CalleeName(sinfo, call)
				if n == ggmlPkg+".Decode" || (strings.HasPrefix(n, "server.") && decoders[strings.TrimPrefix(n, "server.")]) {
					reaches = n
				}
			}
			if reaches == "" {
				continue
			}
			nG++
			rec := false
			for _, st := range l.Body.List {
				if d, ok := st.(*ast.DeferStmt); ok {
					ast.Inspect(d, func(m ast.Node) bool {
						if call, isC := m.(*ast.CallExpr); isC && core.CalleeName(sinfo, call) == "builtin.recover" {
							rec = true
						}
						return true
					})
				}
			}
			c.Check("C10-R3", l.Key()+" go:decodes model files", c.Pos(l.Lit), rec, "goroutine reaches "+reaches+" without a deferred recover")
		}
	}
	c.Expect("C10-R3", "handler goroutines that decode model files", nG, 1)
}

func exprOfSink(r sinkReport) ast.Expr {
	switch x := r.node.(type) {
	case *ast.BinaryExpr:
		return x.Y
	case *ast.CallExpr:
		if len(x.Args) > 0 {
			return x.Args[0]
		}
	}
	return &ast.Ident{Name: "_"}
}

// loopConsumes: every path through the loop body performs a read whose error ends the
// function: the body has reader calls, an `if err != nil { return }` at its top level after
// them, and every clause of a switch that contains reads either reads or returns.
func loopConsumes(info *types.Info, body *ast.BlockStmt, readers map[string]bool) bool {
	hasRead := func(n ast.Node) bool {
		r := false
		ast.Inspect(n, func(m ast.Node) bool {
			if call, ok := m.(*ast.CallExpr); ok && readers[core.CalleeName(info, call)] {
				r = true
			}
			return !r
		})
		return r
	}
	returns := func(n ast.Node) bool {
		r := false
		ast.Inspect(n, func(m ast.Node) bool {
			if _, ok := m.(*ast.ReturnStmt); ok {
				r = true
			}
			return !r
		})
		return r
	}
	readSeen, checked := false, false
	for _, st := range body.List {
		switch x := st.(type) {
		case *ast.SwitchStmt:
			all := len(x.Body.List) > 0
			hasDefault := false
			for _, cl := range x.Body.List {
				if !hasRead(cl) && !returns(cl) {
					all = false
				}
				if cc, isCC := cl.(*ast.CaseClause); isCC && cc.List == nil {
					hasDefault = true
				}
			}
			// a value no clause matches consumes nothing: the switch needs a default that reads or returns
			if !hasDefault {
				all = false
			}
			if all {
				readSeen = true
			}
		case *ast.IfStmt:
			// `if err != nil { return ... }` after a read, or `if _, err := read(); err != nil { return }`
			if x.Init != nil && hasRead(x.Init) && returns(x.Body) {
				readSeen, checked = true, true
			}
			if readSeen && returns(x.Body) {
				// a non-nil test of an error variable
				ast.Inspect(x.Cond, func(m ast.Node) bool {
					if e, isE := m.(ast.Expr); isE {
						if v, eq, isNil := core.IsNilCheck(info, e); isNil && !eq {
							if t := info.TypeOf(v); t != nil && t.String() == "error" {
								checked = true
							}
						}
					}
					return true
				})
			}
		default:
			if hasRead(st) {
				readSeen = true
			}
		}
	}
	return readSeen && checked
}

// stableExpr renders the sink expression for the obligation key with the names of locals,
// parameters and the receiver replaced by what defines them, so that renaming a variable does
// not turn a known construct into a new one: a local assigned once from a call becomes
// «Recv.Method», one assigned once from a constant-key look-up becomes «["k1"]["k2"]», the
// receiver its type name, a parameter «param#i».
func (tc *taintCtx) stableExpr(what string, node ast.Node) string {
	info := tc.info
	repl := map[string]string{}
	describe := func(id *ast.Ident) {
		v, ok := info.Uses[id].(*types.Var)
		if !ok || v.IsField() || v.Pkg() == nil || v.Parent() == v.Pkg().Scope() {
			return
		}
		if _, done := repl[id.Name]; done {
			return
		}
		// receiver / parameters
		if tc.f.Decl != nil && tc.f.Decl.Recv != nil {
			for _, fl := range tc.f.Decl.Recv.List {
				for _, n := range fl.Names {
					if info.Defs[n] == v {
						name := core.ObjNameOfType(v.Type())
						if i := strings.LastIndex(name, "."); i >= 0 {
							name = name[i+1:]
						}
						repl[id.Name] = "«" + name + "»"
						return
					}
				}
			}
		}
		k := 0
		for _, fl := range tc.f.Type.Params.List {
			for _, n := range fl.Names {
				if info.Defs[n] == v {
					repl[id.Name] = "«param#" + itoa(k) + "»"
					return
				}
				k++
			}
		}
		as := tc.g.AssignsTo(v)
		if len(as) != 1 {
			return
		}
		a, isA := as[0].Node.(*ast.AssignStmt)
		if !isA || len(a.Rhs) != 1 {
			return
		}
		switch r := ast.Unparen(a.Rhs[0]).(type) {
		case *ast.CallExpr:
			if n := core.CalleeName(info, r); n != "" {
				if i := strings.Index(n, "."); i >= 0 && strings.Contains(n[:i], "/") {
					n = n[i+1:]
				}
				repl[id.Name] = "«" + n + "»"
			}
		case *ast.IndexExpr:
			keys := ""
			e := ast.Expr(r)
			for {
				ix, isIx := ast.Unparen(e).(*ast.IndexExpr)
				if !isIx {
					break
				}
				k, isS := core.ConstString(info, ix.Index)
				if !isS {
					return
				}
				keys = "[" + strconv.Quote(k) + "]" + keys
				e = ix.X
			}
			if keys != "" {
				repl[id.Name] = "«" + keys + "»"
			}
		}
	}
	ast.Inspect(node, func(n ast.Node) bool {
		if id, ok := n.(*ast.Ident); ok {
			describe(id)
		}
		return true
	})
	if len(repl) == 0 {
		return what
	}
	// replace whole identifiers only
	var b strings.Builder
	i := 0
	isIdent := func(c byte) bool {
		return c == '_' || c >= '0' && c <= '9' || c >= 'a' && c <= 'z' || c >= 'A' && c <= 'Z'
	}
	for i < len(what) {
		if isIdent(what[i]) && (i == 0 || (!isIdent(what[i-1]) && what[i-1] != '.')) {
			j := i
			for j < len(what) && isIdent(what[j]) {
				j++
			}
			if r, ok := repl[what[i:j]]; ok {
				b.WriteString(r)
			} else {
				b.WriteString(what[i:j])
			}
			i = j
			continue
		}
		b.WriteByte(what[i])
		i++
	}
	return b.String()
}

package props

import (
	"go/ast"
	"go/types"
	"sort"
	"strings"

	"verifcheck/core"
)

func init() {
	p := registry["C10"]
	prev := p.Run
	p.Pkgs = append(p.Pkgs, "llm")
	p.Run = func(c *Ctx) { prev(c); extraC10Consumers(c) }
}

// extraC10Consumers is C10-R9: the sink analysis of R1 applied to the code that consumes decoded
// metadata outside fs/ggml in goroutines that gin's recovery middleware does not cover.
func extraC10Consumers(c *Ctx) {
	c.Rule("C10-R9", "consumers of decoded metadata outside fs/ggml that run where a panic ends the server — package llm (memory estimate and runner start, called from the scheduler) and the functions of package server reachable from a goroutine the package starts itself (scheduler loops, the create goroutine) — do not let a file-controlled integer reach a divisor, an index, a slice bound or an allocation size without a dominating test; sources are the ggml.KV accessors, elements of a ggml.KV and the Shape/Kind/Offset of a decoded tensor. Handler goroutines are not in scope: a panic there is answered with 500 by the recovery middleware")
	sinfo := c.P.Pkgs["server"].TypesInfo
	sfns := c.P.FuncsOf("server")
	byName := map[string]*core.Func{}
	for _, f := range sfns {
		if f.Obj != nil {
			byName[f.Obj.FullName()] = f
		}
	}
	// units: a top-level function (with its literals) or a literal started with `go`
	type unit struct {
		top  *core.Func
		root *core.Func // the literal, nil for a whole function
	}
	reach := map[string]bool{}
	var units []unit
	var work []*core.Func
	addTop := func(f *core.Func) {
		if f != nil && !reach[f.Key()] && !strings.HasSuffix(c.Pos(f.Body), "_test.go") {
			reach[f.Key()] = true
			units = append(units, unit{top: f})
			work = append(work, f)
		}
	}
	callees := func(body ast.Node) {
		for _, call := range core.Calls(body, true) {
			if fo, ok := core.Callee(sinfo, call).(*types.Func); ok {
				addTop(byName[fo.FullName()])
			}
		}
	}
	nGo := 0
	for _, f := range sfns {
		if strings.HasSuffix(c.Pos(f.Body), "_test.go") {
			continue
		}
		ast.Inspect(f.Body, func(n ast.Node) bool {
			g, isGo := n.(*ast.GoStmt)
			if !isGo {
				return true
			}
			nGo++
			if lit, isLit := ast.Unparen(g.Call.Fun).(*ast.FuncLit); isLit {
				for _, l := range f.Lits() {
					if l.Lit == lit && !reach[l.Key()] {
						reach[l.Key()] = true
						units = append(units, unit{top: f, root: l})
						callees(l.Body)
					}
				}
			} else if fo, ok := core.Callee(sinfo, g.Call).(*types.Func); ok {
				addTop(byName[fo.FullName()])
			}
			return true
		})
	}
	for len(work) > 0 {
		f := work[0]
		work = work[1:]
		callees(f.Body)
	}
	for _, f := range c.P.FuncsOf("llm") {
		if !strings.HasSuffix(c.Pos(f.Body), "_test.go") {
			units = append(units, unit{top: f})
		}
	}
	c.Expect("C10-R9", "go statements in package server (roots of the unrecovered code)", nGo, 12)
	nU, nF, nS := 0, 0, 0
	for _, u := range units {
		nU++
		var fs []*core.Func
		if u.root == nil {
			fs = append([]*core.Func{u.top}, u.top.Lits()...)
		} else {
			fs = []*core.Func{u.root}
			for _, l := range u.top.Lits() {
				if l != u.root && l.Lit.Pos() >= u.root.Lit.Pos() && l.Lit.End() <= u.root.Lit.End() {
					fs = append(fs, l)
				}
			}
		}
		// literals see the variables of the function around them
		parent := newTaintCtx(c, u.top, nil).tainted
		had := false
		for _, f := range fs {
			tc := newTaintCtx(c, f, parent)
			reports := tc.sinks()
			if len(reports) == 0 {
				continue
			}
			had = true
			sort.Slice(reports, func(a, b int) bool { return reports[a].node.Pos() < reports[b].node.Pos() })
			seq := map[string]int{}
			for _, r := range reports {
				nS++
				k := r.kind + ":" + tc.stableExpr(r.what, r.node)
				seq[k]++
				key := f.Key() + " " + k
				if seq[k] > 1 {
					key += "#" + itoa(seq[k])
				}
				c.Check("C10-R9", key, c.Pos(r.node), r.ok, "file-controlled value ("+r.why+") reaches "+r.kind+" `"+r.what+"` without "+r.need)
			}
		}
		if had {
			nF++
		}
	}
	c.Expect("C10-R9", "functions and goroutine bodies analysed", nU, 100)
	c.Expect("C10-R9", "of them with sink uses of file-controlled values", nF, 1)
	c.Expect("C10-R9", "sink uses of file-controlled values in consumers", nS, 2)
}

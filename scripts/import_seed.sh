#!/bin/bash
# usage: import_seed.sh <srcdir> <dest-id (e.g. C03-3)> <pkgdir> <run-regex> [demo-subdir]
# Copies an adversary deliverable into seeded/<dest-id>, refreshes its patch against /repo HEAD
# (scratch copy, patch -p1 with fuzz, git-style diff), and confirms it with confirm_seed.sh.
set -u
SRC=$(readlink -f "$1"); ID="$2"; PKG="$3"; RX="$4"; SUB="${5:-}"
D=/verif/seeded/$ID
mkdir -p $D/demo
cp $SRC/demo/WHERE.txt $D/demo/ 2>/dev/null
if [ -n "$SUB" ]; then cp $SRC/demo/$SUB/*.go $D/demo/; else cp $SRC/demo/*.go $D/demo/; fi
cp $SRC/meta.json $D/agent_meta.json
WT=/tmp/import-wt-$$
git -C /repo worktree add -q --detach $WT HEAD || exit 2
( cd $WT && patch -p1 -s --no-backup-if-mismatch < $SRC/patch.diff && git diff > $D/patch.diff ) || { echo "PATCH DOES NOT APPLY: $ID"; git -C /repo worktree remove --force $WT; exit 1; }
git -C /repo worktree remove --force $WT
/verif/scripts/confirm_seed.sh $D $PKG "$RX"

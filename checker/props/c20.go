package props

import (
	"go/ast"
	"go/token"
	"go/types"
	"strings"

	"verifcheck/core"
)

func init() {
	register(&Prop{ID: "C20", Pkgs: []string{"model"}, Run: runC20})
}

// remapSwitch finds the tagless switch in f whose cases test variable v (assigned from
// conversion/range source described by pick) and returns it with v's object.
func isByteType(t types.Type) bool {
	return t != nil && (t.String() == "byte" || t.String() == "uint8")
}

func remapSwitch(f *core.Func, pick func(info *types.Info, sw *ast.SwitchStmt) types.Object) (*ast.SwitchStmt, types.Object) {
	var res *ast.SwitchStmt
	var obj types.Object
	ast.Inspect(f.Body, func(n ast.Node) bool {
		sw, ok := n.(*ast.SwitchStmt)
		if !ok || sw.Tag != nil || sw.Init != nil {
			return true
		}
		if o := pick(f.Info(), sw); o != nil && res == nil {
			res, obj = sw, o
		}
		return true
	})
	return res, obj
}

// caseVar: the single variable all case conditions of sw compare with constants.
func caseVar(info *types.Info, sw *ast.SwitchStmt) types.Object {
	var v types.Object
	ok := true
	for _, cl := range sw.Body.List {
		for _, ce := range cl.(*ast.CaseClause).List {
			ast.Inspect(ce, func(n ast.Node) bool {
				if id, isID := n.(*ast.Ident); isID {
					if o, isVar := info.Uses[id].(*types.Var); isVar {
						if v == nil {
							v = o
						} else if v != o {
							ok = false
						}
					}
				}
				return true
			})
		}
	}
	if !ok {
		return nil
	}
	return v
}

func runC20(c *Ctx) {
	info := c.P.Pkgs["model"].TypesInfo

	// ------------------------------------------------------------------ R1
	c.Rule("C20-R1", "the BPE byte→rune table (switch in BytePairEncoding.Encode, or in a function it hands each byte to) and rune→byte table (switch in Decode, or in a function it hands each rune to and whose skip answer it obeys), extracted as piecewise-affine maps by finite-domain abstract interpretation, compose to the identity on every byte 0x01–0xFF; the byte→rune map is injective; no mapped rune is white space or a control character (0x00–0x20, 0x7F–0xA0, 0xAD), so the pre-tokeniser cannot split inside a remapped byte; the decoder's result fits a byte")
	fe, fd := c.Fn("C20-R1", "model", "BytePairEncoding.Encode"), c.Fn("C20-R1", "model", "BytePairEncoding.Decode")
	if fe != nil && fd != nil {
		// the table sits in the codec function or in a function of the package it calls (one level)
		hostsOf := func(f *core.Func) (hosts []*core.Func, via []*ast.CallExpr) {
			hosts, via = []*core.Func{f}, []*ast.CallExpr{nil}
			for _, call := range core.Calls(f.Body, true) {
				fo, _ := core.Callee(info, call).(*types.Func)
				if fo == nil {
					continue
				}
				for _, hf := range c.P.FuncsOf("model") {
					if hf.Obj == fo && hf.Obj != f.Obj {
						hosts, via = append(hosts, hf), append(via, call)
					}
				}
			}
			return
		}
		var swE, swD *ast.SwitchStmt
		var vE, vD types.Object
		var viaE, viaD *ast.CallExpr
		hostE, hostD := fe, fd
		hs, vs := hostsOf(fe)
		for i, host := range hs {
			if swE != nil {
				break
			}
			sw, v := remapSwitch(host, func(info *types.Info, sw *ast.SwitchStmt) types.Object {
				v := caseVar(info, sw)
				if v == nil || v.Type().String() != "rune" && v.Type().String() != "int32" {
					return nil
				}
				// v := rune(b) with b a byte (ranging over []byte(...), or the helper's parameter)
				okDef := false
				ast.Inspect(host.Body, func(n ast.Node) bool {
					if as, ok := n.(*ast.AssignStmt); ok && as.Tok == token.DEFINE && len(as.Lhs) == 1 {
						if id, ok := as.Lhs[0].(*ast.Ident); ok && info.Defs[id] == v {
							if call, ok := ast.Unparen(as.Rhs[0]).(*ast.CallExpr); ok && len(call.Args) == 1 {
								if t := info.Types[call.Args[0]].Type; t != nil && (t.String() == "byte" || t.String() == "uint8") {
									okDef = true
								}
							}
						}
					}
					return true
				})
				if !okDef {
					return nil
				}
				return v
			})
			if sw != nil && (vs[i] == nil || (len(vs[i].Args) == 1 && isByteType(info.Types[vs[i].Args[0]].Type))) {
				swE, vE, hostE, viaE = sw, v, host, vs[i]
			}
		}
		hs, vs = hostsOf(fd)
		for i, host := range hs {
			if swD != nil {
				break
			}
			sw, v := remapSwitch(host, func(info *types.Info, sw *ast.SwitchStmt) types.Object {
				v := caseVar(info, sw)
				if v == nil || v.Type().String() != "rune" && v.Type().String() != "int32" {
					return nil
				}
				if vs[i] != nil && v != paramAt(host, 0) {
					return nil
				}
				return v
			})
			if sw != nil {
				swD, vD, hostD, viaD = sw, v, host, vs[i]
			}
		}
		// a table in a helper is the helper's whole effect: every return outside the switch hands back the
		// variable (converted), with ok = true where there is a second result
		for _, side := range []struct {
			host *core.Func
			sw   *ast.SwitchStmt
			v    types.Object
			via  *ast.CallExpr
		}{{hostE, swE, vE, viaE}, {hostD, swD, vD, viaD}} {
			if side.via == nil || side.sw == nil {
				continue
			}
			bad := ""
			ast.Inspect(side.host.Body, func(n ast.Node) bool {
				if n == nil || n == ast.Node(side.sw) {
					return n != ast.Node(side.sw)
				}
				switch x := n.(type) {
				case *ast.FuncLit:
					return false
				case *ast.ReturnStmt:
					okRet := len(x.Results) >= 1
					if okRet {
						r := ast.Unparen(x.Results[0])
						if call, isC := r.(*ast.CallExpr); isC && len(call.Args) == 1 && info.Types[call.Fun].IsType() {
							r = ast.Unparen(call.Args[0])
						}
						okRet = isIdentOf(info, r, side.v)
					}
					if okRet && len(x.Results) == 2 {
						id, isID := ast.Unparen(x.Results[1]).(*ast.Ident)
						okRet = isID && id.Name == "true"
					}
					if !okRet {
						bad = "return at " + c.Pos(x) + " does not hand back the remapped value"
					}
				case *ast.AssignStmt:
					for _, l := range x.Lhs {
						if isIdentOf(info, l, side.v) && x.Tok != token.DEFINE {
							bad = "the value is changed outside the table at " + c.Pos(x)
						}
					}
				}
				return true
			})
			c.Check("C20-R1", side.host.Key()+" helper returns the table's value", c.Pos(side.sw), bad == "", bad)
		}
		if swE == nil || swD == nil {
			c.Undecided("C20-R1", "anchor:remap switches", "-", "anchor lost: tagless switch over rune(b) in Encode / over the decoded rune in Decode")
		} else {
			byteDom := core.NewIvSet(core.Iv{Lo: 0, Hi: 255})
			f, why := core.PiecewiseFromSwitch(info, swE, vE, byteDom)
			if why != "" {
				c.Undecided("C20-R1", fe.Key()+" byte→rune switch", c.Pos(swE), "outside the interpreted fragment: "+why)
			}
			var image core.IvSet
			inj := true
			for _, p := range f {
				img := p.Image()
				if p.Const && p.Dom.Count() > 1 {
					inj = false
				}
				if !image.Intersect(img).Empty() {
					inj = false
				}
				image = image.Union(img)
			}
			var overlap []string
			for i := range f {
				for j := i + 1; j < len(f); j++ {
					if o := f[i].Image().Intersect(f[j].Image()); !o.Empty() {
						overlap = append(overlap, f[i].Dom.String()+" and "+f[j].Dom.String()+" both map onto "+o.String())
					}
				}
			}
			if why == "" {
				c.Check("C20-R1", fe.Key()+" byte→rune map injective", c.Pos(swE), inj, strings.Join(overlap, "; "))
				forbidden := core.NewIvSet(core.Iv{Lo: 0, Hi: 0x20}, core.Iv{Lo: 0x7f, Hi: 0xa0}, core.Iv{Lo: 0xad, Hi: 0xad})
				c.Check("C20-R1", fe.Key()+" no byte maps to white space / control", c.Pos(swE), image.Intersect(forbidden).Empty(), "image meets "+image.Intersect(forbidden).String())
				c.Check("C20-R1", fe.Key()+" byte→rune map is total on bytes", c.Pos(swE), image.Count() == 256 || !inj, "image has "+itoa(int(image.Count()))+" runes")
			}
			g, why2 := core.PiecewiseFromSwitch(info, swD, vD, image)
			if why2 != "" {
				c.Undecided("C20-R1", fd.Key()+" rune→byte switch", c.Pos(swD), "outside the interpreted fragment: "+why2)
			}
			if why == "" && why2 == "" {
				// compose piece by piece: for x in f-piece P (x→x+a), y=x+a lies in g-piece Q (y→y+b | const | skip)
				var bad []string
				checked := int64(0)
				for _, p := range f {
					for _, q := range g {
						var dom core.IvSet // subset of p.Dom whose image falls in q.Dom
						if p.Const {
							if q.Dom.Contains(p.Add) {
								dom = p.Dom
							}
						} else {
							dom = q.Dom.Shift(-p.Add).Intersect(p.Dom)
						}
						dom = dom.Minus(core.NewIvSet(core.Iv{Lo: 0, Hi: 0})) // NUL is outside the property
						if dom.Empty() {
							continue
						}
						checked += dom.Count()
						switch {
						case q.Skip:
							bad = append(bad, "bytes "+dom.String()+" are dropped by the decoder")
						case q.Const && p.Const:
							if !(dom.Count() == 1 && dom.Contains(q.Add)) {
								bad = append(bad, "bytes "+dom.String()+" decode to the constant "+itoa(int(q.Add)))
							}
						case q.Const:
							if !(dom.Count() == 1 && dom.Contains(q.Add)) {
								bad = append(bad, "bytes "+dom.String()+" decode to the constant "+itoa(int(q.Add)))
							}
						case p.Const:
							if !(dom.Count() == 1 && dom.Contains(p.Add+q.Add)) {
								bad = append(bad, "bytes "+dom.String()+" decode to "+itoa(int(p.Add+q.Add)))
							}
						default:
							if p.Add+q.Add != 0 {
								bad = append(bad, "bytes "+dom.String()+" decode shifted by "+itoa(int(p.Add+q.Add)))
							}
						}
					}
				}
				c.Check("C20-R1", "decode∘encode = identity on bytes 0x01–0xFF", c.Pos(swD), len(bad) == 0 && checked == 255, strings.Join(bad, "; ")+" (bytes covered: "+itoa(int(checked))+")")
				c.Extra["exhaustive_clause"] = "C20-R1: all 255 byte values decided by composing the two piecewise-affine maps"
				c.Count("C20-R1 bytes covered", int(checked))
				// decoder output fits a byte
				var out core.IvSet
				for _, q := range g {
					out = out.Union(q.Image())
				}
				c.Check("C20-R1", fd.Key()+" decoded value fits a byte", c.Pos(swD), out.Minus(core.NewIvSet(core.Iv{Lo: 0, Hi: 255})).Empty(), "decoder can produce "+out.Minus(core.NewIvSet(core.Iv{Lo: 0, Hi: 255})).String())
			}
			// the encoder writes the remapped rune, the decoder the remapped byte
			// what the codec loop holds after the table: the variable itself, or the helper's result
			var resE, resD, okD types.Object
			resE, resD = vE, vD
			if viaE != nil {
				resE = nil
				if top := stmtOf(fe, viaE); top != nil {
					resE = core.ResultVar(info, top, viaE, 0)
				}
			}
			if viaD != nil {
				resD = nil
				if top := stmtOf(fd, viaD); top != nil {
					resD = core.ResultVar(info, top, viaD, 0)
					okD = core.ResultVar(info, top, viaD, 1)
				}
			}
			isRes := func(e ast.Expr, res types.Object, via *ast.CallExpr) bool {
				if via != nil && ast.Unparen(e) == ast.Expr(via) {
					return true
				}
				return res != nil && core.UsesObj(info, e, res)
			}
			okW := false
			ast.Inspect(fe.Body, func(n ast.Node) bool {
				if call, ok := n.(*ast.CallExpr); ok && core.CalleeName(info, call) == "strings.Builder.WriteRune" && isRes(call.Args[0], resE, viaE) {
					okW = true
				}
				return true
			})
			okWD := false
			gd := c.G(fd)
			ast.Inspect(fd.Body, func(n ast.Node) bool {
				if call, ok := n.(*ast.CallExpr); ok && core.CalleeName(info, call) == "strings.Builder.WriteByte" && isRes(call.Args[0], resD, viaD) {
					okWD = true
					// a helper that reports "skip" through its second result is obeyed
					if viaD != nil && hostD.Type.Results != nil && hostD.Type.Results.NumFields() == 2 {
						okWD = false
						for _, a := range gd.AtomsAt(gd.Locate(call)) {
							if okD != nil && isIdentOf(info, a.Expr, okD) && a.Val {
								okWD = true
							}
						}
					}
				}
				return true
			})
			c.Check("C20-R1", "remapped values are what is written", c.Pos(swE), okW && okWD, "Encode must WriteRune the remapped rune, Decode must WriteByte the remapped rune")
			// … and nothing else: the loop around each table writes to its builder only through that call
			// and has no way round the table (a fast path that writes the raw byte is a second, unmodelled map)
			for _, side := range []struct {
				f     *core.Func
				sw    ast.Node
				write string
				v     types.Object
				via   *ast.CallExpr
				okVar types.Object
			}{{fe, swE, "strings.Builder.WriteRune", resE, viaE, nil}, {fd, swD, "strings.Builder.WriteByte", resD, viaD, okD}} {
				if side.via != nil {
					side.sw = side.via
				}
				var loop *ast.RangeStmt
				for _, rl := range rangeLoops(side.f) {
					if within(rl.Stmt, side.sw) && (loop == nil || within(loop, rl.Stmt)) {
						loop = rl.Stmt
					}
				}
				if loop == nil {
					c.Undecided("C20-R1", side.f.Key()+" loop around the byte table", c.Pos(side.sw), "anchor lost")
					continue
				}
				bad := ""
				ast.Inspect(loop.Body, func(n ast.Node) bool {
					if n == nil {
						return true
					}
					if within(side.sw, n) && n != side.sw {
						return true // inside the table itself: interpreted by the piecewise analysis
					}
					switch x := n.(type) {
					case *ast.BranchStmt:
						// the helper's "skip" answer is the one way round the write
						obeys := false
						if side.okVar != nil && x.Tok == token.CONTINUE {
							gs := c.G(side.f)
							for _, a := range gs.AtomsAt(gs.Locate(x)) {
								if isIdentOf(info, a.Expr, side.okVar) && !a.Val {
									obeys = true
								}
							}
						}
						if !obeys {
							bad = x.Tok.String() + " at " + c.Pos(x) + " bypasses the table"
						}
					case *ast.CallExpr:
						name := core.CalleeName(info, x)
						if strings.HasPrefix(name, "strings.Builder.Write") {
							if name != side.write || len(x.Args) != 1 || !isRes(x.Args[0], side.v, side.via) {
								bad = "additional write " + core.ExprString(x) + " at " + c.Pos(x)
							}
						}
					}
					return true
				})
				// and the function has no other way of writing to a builder at all (an outer-loop fast path that
				// writes a whole token verbatim skips the table for every byte of it)
				ast.Inspect(side.f.Body, func(n ast.Node) bool {
					x, isCall := n.(*ast.CallExpr)
					if !isCall || within(loop.Body, x) {
						return true
					}
					if name := core.CalleeName(info, x); strings.HasPrefix(name, "strings.Builder.Write") {
						// one whole-token write is part of the codec: a special token (type CONTROL) is matched by
						// Encode as raw text, so Decode writes its value as it stands (judged by C20-R12)
						special := false
						if len(x.Args) == 1 && decodedValue(info, side.f.Body, x.Args[0]) {
							gs := c.G(side.f)
							for _, a := range gs.AtomsAt(gs.Locate(x)) {
								if be, isB := ast.Unparen(a.Expr).(*ast.BinaryExpr); isB && mentionsIdentNamed(be, "TOKEN_TYPE_CONTROL") && ((be.Op == token.EQL && a.Val) || (be.Op == token.NEQ && !a.Val)) {
									special = true
								}
								if a.Val && specialMembership(info, a.Expr) {
									special = true
								}
							}
						}
						if !special {
							bad = "write " + core.ExprString(x) + " at " + c.Pos(x) + " outside the loop over the token's bytes"
						}
					}
					return true
				})
				c.Check("C20-R1", side.f.Key()+" every byte goes through the table", c.Pos(loop), bad == "", bad)
			}
		}
	}

	// ------------------------------------------------------------------ R2 / R3
	c.Rule("C20-R2", "ids only from guarded look-ups: every value appended to ids in both Encode functions is the result of vocab.Encode on its `>= 0` edge, the ids of a special-token fragment (filled only with vocab.Encode of a string taken from SpecialVocabulary), a byte-fallback list built from guarded look-ups, or vocab.BOS / vocab.EOS")
	c.Rule("C20-R3", "specials first: the special-token splitting loop dominates the pre-tokeniser / merge loop, a fragment is skipped in it only when it already carries ids or does not contain the literal, the pieces spliced in are exactly prefix / literal / rest on every path from the search to the splice, and fragments with ids bypass pre-tokenising")
	for _, fname := range []string{"BytePairEncoding.Encode", "SentencePieceModel.Encode"} {
		f := c.Fn("C20-R2", "model", fname)
		if f == nil {
			continue
		}
		g := c.G(f)
		// the output list: the variable returned as the first result on success
		var idsObj types.Object
		for _, ex := range g.Returns() {
			if len(ex.Return.Results) == 2 && g.ReturnKind(ex) == core.RetSuccess {
				if id, isID := ast.Unparen(ex.Return.Results[0]).(*ast.Ident); isID {
					idsObj = info.Uses[id]
				}
			}
		}
		nApp := 0
		for _, h := range g.Find(func(n ast.Node) bool {
			as, ok := n.(*ast.AssignStmt)
			if !ok || len(as.Lhs) != 1 || len(as.Rhs) != 1 {
				return false
			}
			return idsObj != nil && isIdentOf(info, as.Lhs[0], idsObj) && len(core.CallsTo(info, as.Rhs[0], false, "builtin.append")) == 1
		}) {
			nApp++
			as := h.Node.(*ast.AssignStmt)
			call := core.CallsTo(info, as.Rhs[0], false, "builtin.append")[0]
			// the appended operands (everything except ids itself)
			ok, why := true, ""
			for _, a := range call.Args {
				a = ast.Unparen(a)
				if isIdentOf(info, a, idsObj) {
					continue
				}
				if cl, isCl := a.(*ast.CompositeLit); isCl { // []int32{vocab.BOS}
					for _, e := range cl.Elts {
						if n := selName(e); n != "BOS" && n != "EOS" {
							ok, why = false, "literal element "+core.ExprString(e)
						}
					}
					continue
				}
				switch {
				case selName(a) == "BOS" || selName(a) == "EOS":
				case selName(a) == "ids": // frag.ids...
				default:
					p := core.PathOf(info, a)
					if !p.Valid() {
						ok, why = false, "operand "+core.ExprString(a)
						continue
					}
					if !guardedID(g, h.Loc, p.Root, info) && !guardedIDList(c, f, p.Root, info) {
						ok, why = false, core.ExprString(a)+" is not a vocabulary look-up on its >= 0 edge"
					}
				}
			}
			c.Check("C20-R2", f.Key()+" append:ids#"+itoa(nApp), c.Pos(as), ok, "appended value must come from a guarded vocabulary look-up: "+why)
		}
		c.Expect("C20-R2", "appends to ids in "+fname, nApp, 4)
		// fragment ids: composite literals fragment{..., ids: []int32{id}} with id = vocab.Encode(special)
		okFrag := true
		nFrag := 0
		ast.Inspect(f.Body, func(n ast.Node) bool {
			kv, ok := n.(*ast.KeyValueExpr)
			if !ok {
				return true
			}
			if id, isID := kv.Key.(*ast.Ident); !isID || id.Name != "ids" {
				return true
			}
			nFrag++
			cl, isCl := ast.Unparen(kv.Value).(*ast.CompositeLit)
			if !isCl || len(cl.Elts) != 1 {
				okFrag = false
				return true
			}
			p := core.PathOf(info, cl.Elts[0])
			good := false
			if p.Valid() {
				for _, as := range g.AssignsTo(p.Root) {
					for _, enc := range core.CallsTo(info, as.Node, false, "model.Vocabulary.Encode") {
						// argument is the loop variable ranging over SpecialVocabulary()
						for _, rl := range rangeLoops(f) {
							if len(core.CallsTo(info, rl.Stmt.X, false, "model.Vocabulary.SpecialVocabulary")) == 1 {
								if vid, isV := rl.Stmt.Value.(*ast.Ident); isV && core.UsesObj(info, enc.Args[0], info.Defs[vid]) {
									good = true
								}
							}
						}
					}
				}
			}
			if !good {
				okFrag = false
			}
			return true
		})
		c.Check("C20-R2", f.Key()+" special fragments carry the id of their own literal", c.Pos(f.Decl), okFrag && nFrag >= 1, "fragment ids must be []int32{vocab.Encode(special)} for the special being split")

		// R3
		var special, tokenise *ast.RangeStmt
		for _, rl := range rangeLoops(f) {
			if len(core.CallsTo(info, rl.Stmt.X, false, "model.Vocabulary.SpecialVocabulary")) == 1 {
				special = rl.Stmt
			}
			if p := core.PathOf(info, rl.Stmt.X); p.Valid() && len(p.Fields) == 0 && isSliceOf(p.Root.Type(), "model.fragment") && special != nil && rl.Stmt != special && !within(special, rl.Stmt) {
				tokenise = rl.Stmt
			}
		}
		if special == nil || tokenise == nil {
			c.Undecided("C20-R3", "anchor:loops in "+fname, "-", "anchor lost: special-token loop / fragment loop")
			continue
		}
		c.Check("C20-R3", f.Key()+" special splitting precedes tokenising", c.Pos(special), g.Dominates(g.Locate(special.X), g.Locate(tokenise.X)) && !g.Reaches(g.Locate(tokenise.X), g.Locate(special.X)), "the loop over SpecialVocabulary must run to completion before the fragment loop")
		// the search for the literal: idx := strings.Index(<fragment>.value, <literal>) inside the special loop
		var idxObj, specialVar types.Object
		var idxLoc core.Loc
		if vid, isV := special.Value.(*ast.Ident); isV {
			specialVar = info.Defs[vid]
		}
		for _, h := range g.Find(func(n ast.Node) bool {
			as, ok := n.(*ast.AssignStmt)
			return ok && within(special, as) && len(as.Lhs) == 1 && len(as.Rhs) == 1 && len(core.CallsTo(info, as.Rhs[0], false, "strings.Index")) == 1
		}) {
			as := h.Node.(*ast.AssignStmt)
			call := core.CallsTo(info, as.Rhs[0], false, "strings.Index")[0]
			if id, isID := as.Lhs[0].(*ast.Ident); isID && ast.Unparen(as.Rhs[0]) == ast.Expr(call) && selName(call.Args[0]) == "value" && specialVar != nil && isIdentOf(info, call.Args[1], specialVar) {
				idxObj, idxLoc = info.ObjectOf(id), h.Loc
			}
		}
		// sign of the comparison `idx op k` for idx = v
		idxCmp := func(e ast.Expr, v int64) (val, ok bool) {
			be, isB := ast.Unparen(e).(*ast.BinaryExpr)
			if !isB || idxObj == nil {
				return false, false
			}
			_, y, op, okO := core.Orient(be, func(x ast.Expr) bool { return isIdentOf(info, x, idxObj) })
			k, isK := core.ConstInt(info, y)
			if !okO || !isK {
				return false, false
			}
			switch op {
			case token.LSS:
				return v < k, true
			case token.LEQ:
				return v <= k, true
			case token.GTR:
				return v > k, true
			case token.GEQ:
				return v >= k, true
			case token.EQL:
				return v == k, true
			case token.NEQ:
				return v != k, true
			}
			return false, false
		}
		// continues inside the special loop only for fragments that already have ids, or that do not contain the literal
		for _, br := range g.Find(func(n ast.Node) bool {
			b, ok := n.(*ast.BranchStmt)
			return ok && within(special, b) && (b.Tok == token.CONTINUE || b.Tok == token.BREAK)
		}) {
			ok := false
			for _, a := range g.AtomsAt(br.Loc) {
				if be, isB := ast.Unparen(a.Expr).(*ast.BinaryExpr); isB && be.Op == token.GTR && a.Val {
					if p, isLen := isLenOf(info, be.X); isLen && p.Last() != nil && p.Last().Name() == "ids" {
						ok = true
					}
				}
				// idx < 0 (the literal is absent): the edge is taken for -1 and for no idx >= 0
				if v1, ok1 := idxCmp(a.Expr, -1); ok1 && v1 == a.Val {
					v2, _ := idxCmp(a.Expr, 0)
					v3, _ := idxCmp(a.Expr, 1<<40)
					if v2 != a.Val && v3 != a.Val {
						ok = true
					}
				}
			}
			c.Check("C20-R3", f.Key()+" fragment skipped in the special loop only when it has ids", c.Pos(br.Node), ok, "a fragment without ids must always be searched for the special literal (a length shortcut can skip a fragment that is exactly the literal)")
		}
		// the split, read off the paths from the search to the statement that splices the pieces in: with the
		// literal absent nothing is cut; at position 0 the pieces are literal [, rest]; further in, prefix, literal
		// [, rest]; the rest may be left out only on the edge that found it empty
		okSplit, whySplit := false, "anchor lost: idx := strings.Index(fragment.value, literal) and the splice of the pieces"
		var splice *core.Hit
		for _, h := range g.Find(func(n ast.Node) bool {
			as, ok := n.(*ast.AssignStmt)
			if !ok || !within(special, as) || len(as.Lhs) != 1 || len(as.Rhs) != 1 {
				return false
			}
			id, isID := as.Lhs[0].(*ast.Ident)
			if !isID || info.ObjectOf(id) == nil || !isSliceOf(info.ObjectOf(id).Type(), "model.fragment") {
				return false
			}
			// fragments = append(fragments[:i], …): mentions a slice of itself
			self := false
			ast.Inspect(as.Rhs[0], func(m ast.Node) bool {
				if se, isSe := m.(*ast.SliceExpr); isSe && isIdentOf(info, se.X, info.ObjectOf(id)) {
					self = true
				}
				return true
			})
			return self
		}) {
			hh := h
			splice = &hh
		}
		if idxObj != nil && splice != nil {
			classify := func(el ast.Expr) string {
				el = ast.Unparen(el)
				if id, isID := el.(*ast.Ident); isID {
					if v, isV := info.ObjectOf(id).(*types.Var); isV && core.ObjNameOfType(v.Type()) == "model.fragment" {
						return "whole"
					}
				}
				cl, isCL := el.(*ast.CompositeLit)
				if !isCL || core.ObjNameOfType(info.TypeOf(cl)) != "model.fragment" {
					return "other"
				}
				var val ast.Expr
				for _, e := range cl.Elts {
					kv, isKV := e.(*ast.KeyValueExpr)
					if !isKV {
						return "other"
					}
					switch k, _ := kv.Key.(*ast.Ident); {
					case k != nil && k.Name == "ids":
						return "lit"
					case k != nil && k.Name == "value":
						val = kv.Value
					}
				}
				if val == nil {
					return "other"
				}
				val = ast.Unparen(val)
				if id, isID := val.(*ast.Ident); isID {
					if rhs, ix, n := singleDef(info, special.Body, info.ObjectOf(id)); n == 1 && ix == -1 {
						val = ast.Unparen(rhs)
					}
				}
				se, isSe := val.(*ast.SliceExpr)
				if !isSe || selName(se.X) != "value" {
					return "other"
				}
				switch {
				case se.Low == nil && se.High != nil && isIdentOf(info, se.High, idxObj):
					return "prefix"
				case se.High == nil && se.Low != nil:
					// idx + len(literal)
					if be, isB := ast.Unparen(se.Low).(*ast.BinaryExpr); isB && be.Op == token.ADD {
						x, y := be.X, be.Y
						if !isIdentOf(info, x, idxObj) {
							x, y = y, x
						}
						if p, isLen := isLenOf(info, y); isIdentOf(info, x, idxObj) && isLen && p.Root == specialVar && len(p.Fields) == 0 {
							return "rest"
						}
					}
				}
				return "other"
			}
			// the local that holds the rest, for the emptiness test
			isRestVar := func(e ast.Expr) bool {
				id, isID := ast.Unparen(e).(*ast.Ident)
				if !isID {
					return false
				}
				rhs, ix, n := singleDef(info, special.Body, info.ObjectOf(id))
				if n != 1 || ix != -1 {
					return false
				}
				se, isSe := ast.Unparen(rhs).(*ast.SliceExpr)
				return isSe && se.High == nil && se.Low != nil && selName(se.X) == "value"
			}
			paths, complete := g.PathsTo(idxLoc, splice.Loc, 4000)
			okSplit, whySplit = complete && len(paths) > 0, "path enumeration incomplete"
			seen := map[string]bool{}
			for _, path := range paths {
				feasible := map[string]bool{"absent": true, "first": true, "inside": true}
				rep := map[string]int64{"absent": -1, "first": 0, "inside": 7}
				restEmpty := false
				var seq []string
				for _, st := range path {
					if e, isE := st.Node.(ast.Expr); isE && st.Edge >= 0 {
						for cls, v := range rep {
							if val, ok := idxCmp(e, v); ok && val != (st.Edge == 0) {
								feasible[cls] = false
							}
						}
						if be, isB := ast.Unparen(e).(*ast.BinaryExpr); isB && (be.Op == token.NEQ || be.Op == token.EQL) {
							if sv, isS := core.ConstString(info, be.Y); isS && sv == "" && isRestVar(be.X) {
								if (be.Op == token.NEQ) == (st.Edge == 1) {
									restEmpty = true
								}
							}
						}
					}
					if as, isAs := st.Node.(*ast.AssignStmt); isAs && len(as.Rhs) == 1 {
						if call, isC := ast.Unparen(as.Rhs[0]).(*ast.CallExpr); isC && core.CalleeName(info, call) == "builtin.append" && len(call.Args) >= 2 && !call.Ellipsis.IsValid() {
							if id, isID := as.Lhs[0].(*ast.Ident); isID && info.ObjectOf(id) != nil && isSliceOf(info.ObjectOf(id).Type(), "model.fragment") {
								for _, el := range call.Args[1:] {
									seq = append(seq, classify(el))
								}
							}
						}
					}
				}
				got := strings.Join(seq, ",")
				for cls, fz := range feasible {
					if !fz {
						continue
					}
					seen[cls] = true
					good := false
					switch cls {
					case "absent":
						good = got == "" || got == "whole"
					case "first":
						good = got == "lit,rest" || (got == "lit" && restEmpty)
					case "inside":
						good = got == "prefix,lit,rest" || (got == "prefix,lit" && restEmpty)
					}
					if !good {
						okSplit = false
						whySplit = "with the literal " + cls + " a path splices in [" + got + "]"
					}
				}
			}
			if okSplit && !(seen["first"] && seen["inside"]) {
				okSplit, whySplit = false, "no path splits a fragment that starts with / contains the literal"
			}
		}
		c.Check("C20-R3", f.Key()+" split cases: absent / prefix+literal / literal", c.Pos(special), okSplit, "the pieces spliced in must be: nothing new when the literal is absent; literal [+ rest] when it starts the fragment; prefix, literal [+ rest] otherwise; the rest left out only when empty — "+whySplit)
		// fragments with ids bypass tokenising: first statement of the fragment loop
		okBy := false
		if len(tokenise.Body.List) > 0 {
			if is, ok := tokenise.Body.List[0].(*ast.IfStmt); ok {
				hasIDs := false
				if be, isB := ast.Unparen(is.Cond).(*ast.BinaryExpr); isB && be.Op == token.GTR {
					if p, isLen := isLenOf(info, be.X); isLen && p.Last() != nil && p.Last().Name() == "ids" {
						if v, isC := core.ConstInt(info, be.Y); isC && v == 0 {
							hasIDs = true
						}
					}
				}
				if hasIDs && len(is.Body.List) >= 2 {
					if b, isB := is.Body.List[len(is.Body.List)-1].(*ast.BranchStmt); isB && b.Tok == token.CONTINUE {
						okBy = true
					}
				}
			}
		}
		c.Check("C20-R3", f.Key()+" fragments with ids bypass pre-tokenising", c.Pos(tokenise), okBy, "a special fragment must contribute its ids and skip the text path")
	}

	// ------------------------------------------------------------------ R4
	c.Rule("C20-R4", "SPM byte tokens: the format used for fall-back tokens (\"<0x%02X>\": six characters, zero padded, upper-case hex) and the constants of the parser in Decode (length 6, prefix \"<0x\", suffix \">\", digits [1:5] parsed with base 0 into 8 bits) describe the same shape")
	if f := c.Fn("C20-R4", "model", "SentencePieceModel.Encode"); f != nil {
		n := 0
		// the format is applied in Encode or in a function of the package that Encode hands a byte to
		hosts := []*core.Func{f}
		for _, call := range core.Calls(f.Body, true) {
			if fo, _ := core.Callee(info, call).(*types.Func); fo != nil && len(call.Args) == 1 && isByteType(info.Types[call.Args[0]].Type) {
				for _, hf := range c.P.FuncsOf("model") {
					if hf.Obj == fo {
						hosts = append(hosts, hf)
					}
				}
			}
		}
		for _, host := range hosts {
			for _, call := range core.CallsTo(info, host.Body, true, "fmt.Sprintf") {
				if s, ok := core.ConstString(info, call.Args[0]); ok && strings.Contains(s, "0x") {
					n++
					okT := len(call.Args) == 2 && isByteType(info.Types[call.Args[1]].Type)
					c.Check("C20-R4", host.Key()+" byte-token format", c.Pos(call), s == "<0x%02X>" && okT, "found format "+s)
				}
			}
			// the other spelling: string([]byte{'<', '0', 'x', D[b>>4], D[b&0x0f], '>'}) with D = "0123456789ABCDEF"
			ast.Inspect(host.Body, func(nd ast.Node) bool {
				cl, ok := nd.(*ast.CompositeLit)
				if !ok || len(cl.Elts) != 6 {
					return true
				}
				if sl, isSl := info.TypeOf(cl).Underlying().(*types.Slice); !isSl || !isByteType(sl.Elem()) {
					return true
				}
				chr := func(e ast.Expr, want int64) bool { v, isC := core.ConstInt(info, e); return isC && v == want }
				digit := func(e ast.Expr, high bool) bool {
					ix, isIx := ast.Unparen(e).(*ast.IndexExpr)
					if !isIx {
						return false
					}
					if d, isS := core.ConstString(info, ix.X); !isS || d != "0123456789ABCDEF" {
						return false
					}
					be, isB := ast.Unparen(ix.Index).(*ast.BinaryExpr)
					if !isB || !isByteType(info.TypeOf(be.X)) {
						return false
					}
					k, isK := core.ConstInt(info, be.Y)
					switch {
					case high:
						return isK && ((be.Op == token.SHR && k == 4) || (be.Op == token.QUO && k == 16))
					default:
						return isK && ((be.Op == token.AND && k == 15) || (be.Op == token.REM && k == 16))
					}
				}
				if !(chr(cl.Elts[0], '<') && chr(cl.Elts[1], '0') && chr(cl.Elts[2], 'x')) {
					return true
				}
				n++
				c.Check("C20-R4", host.Key()+" byte-token format", c.Pos(cl), digit(cl.Elts[3], true) && digit(cl.Elts[4], false) && chr(cl.Elts[5], '>'), "hand-built byte token is not '<0x' + two upper-case hex digits (high nibble first) + '>'")
				return true
			})
		}
		c.Expect("C20-R4", "byte-token format sites in SPM Encode", n, 1)
		// the formatted token is what is looked up
	}
	if f := c.Fn("C20-R4", "model", "SentencePieceModel.Decode"); f != nil {
		g := c.G(f)
		// at the parse: len(x) == 6, HasPrefix(x, "<0x"), HasSuffix(x, ">") are known of one variable x
		// (whichever way round the test is written), and the digits parsed are x[1:5], base 0, 8 bits
		okShape, okParse := false, false
		for _, h := range g.FindCalls("strconv.ParseUint") {
			call := h.Node.(*ast.CallExpr)
			var lenV, preV, sufV types.Object
			for _, a := range g.AtomsAt(h.Loc) {
				if be, isB := ast.Unparen(a.Expr).(*ast.BinaryExpr); isB && ((be.Op == token.EQL && a.Val) || (be.Op == token.NEQ && !a.Val)) {
					if p, isLen := isLenOf(info, be.X); isLen && len(p.Fields) == 0 {
						if v, isC := core.ConstInt(info, be.Y); isC && v == 6 {
							lenV = p.Root
						}
					}
				}
				if cl, isC := ast.Unparen(a.Expr).(*ast.CallExpr); isC && len(cl.Args) == 2 && a.Val {
					lit, _ := core.ConstString(info, cl.Args[1])
					switch {
					case core.CalleeName(info, cl) == "strings.HasPrefix" && lit == "<0x":
						preV = core.PathOf(info, cl.Args[0]).Root
					case core.CalleeName(info, cl) == "strings.HasSuffix" && lit == ">":
						sufV = core.PathOf(info, cl.Args[0]).Root
					}
				}
			}
			if lenV != nil && lenV == preV && lenV == sufV {
				okShape = true
			}
			if se, ok := ast.Unparen(call.Args[0]).(*ast.SliceExpr); ok && se.Low != nil && se.High != nil {
				lo, ok1 := core.ConstInt(info, se.Low)
				hi, ok2 := core.ConstInt(info, se.High)
				base, ok3 := core.ConstInt(info, call.Args[1])
				bits, ok4 := core.ConstInt(info, call.Args[2])
				if ok1 && ok2 && ok3 && ok4 && lo == 1 && hi == 5 && base == 0 && bits == 8 && lenV != nil && isIdentOf(info, se.X, lenV) {
					okParse = true
				}
			}
		}
		c.Check("C20-R4", f.Key()+" byte-token parser shape", c.Pos(f.Decl), okShape && okParse, "Decode must recognise exactly len 6, prefix <0x, suffix >, and parse data[1:5] (\"0xNN\") with base 0 into 8 bits")
	}
}

// guardedID: variable o was assigned from vocab.Encode(...) and `o >= 0` holds at loc.
func guardedID(g *core.Graph, loc core.Loc, o types.Object, info *types.Info) bool {
	fromEnc := false
	for _, as := range g.AssignsTo(o) {
		if len(core.CallsTo(info, as.Node, false, "model.Vocabulary.Encode")) == 1 {
			fromEnc = true
		}
	}
	if !fromEnc {
		return false
	}
	for _, a := range g.AtomsAt(loc) {
		be, ok := ast.Unparen(a.Expr).(*ast.BinaryExpr)
		if !ok {
			continue
		}
		id, isID := ast.Unparen(be.X).(*ast.Ident)
		v, isC := core.ConstInt(info, be.Y)
		if !isID || info.Uses[id] != o || !isC || v != 0 {
			continue
		}
		if (be.Op == token.GEQ && a.Val) || (be.Op == token.LSS && !a.Val) {
			return true
		}
	}
	return false
}

// guardedIDList: slice variable o only ever grows by guarded look-ups (byte fallback).
func guardedIDList(c *Ctx, f *core.Func, o types.Object, info *types.Info) bool {
	g := c.G(f)
	n := 0
	for _, as := range g.AssignsTo(o) {
		a, ok := as.Node.(*ast.AssignStmt)
		if !ok {
			if _, isSpec := as.Node.(*ast.ValueSpec); isSpec {
				continue
			}
			return false
		}
		apps := core.CallsTo(info, a.Rhs[0], false, "builtin.append")
		if len(apps) != 1 || len(apps[0].Args) != 2 {
			return false
		}
		p := core.PathOf(info, apps[0].Args[1])
		if !p.Valid() || !guardedID(g, as.Loc, p.Root, info) {
			return false
		}
		n++
	}
	return n > 0
}

func isSliceOf(t types.Type, elem string) bool {
	sl, ok := t.Underlying().(*types.Slice)
	return ok && core.ObjNameOfType(sl.Elem()) == elem
}

func mentionsIdentNamed(n ast.Node, name string) bool {
	found := false
	ast.Inspect(n, func(m ast.Node) bool {
		if id, ok := m.(*ast.Ident); ok && id.Name == name {
			found = true
		}
		return !found
	})
	return found
}
